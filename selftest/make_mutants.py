#!/usr/bin/env python3
"""Generates hand-written sensitivity mutants as patches against /repo HEAD.
Each entry: (name, checks expected to catch it, file, old text, new text)."""
import difflib, os, sys

REPO = '/repo'
OUT = os.path.join(os.path.dirname(os.path.abspath(__file__)), 'mutants')
RS = 'rust/src/lib.rs'
PY = 'generation/src/proof_generation/'

M = [
 # ---------------- checker (C01, C05)
 ('rs_esubst_mu_capture', 'C05', RS, '''                plug.s_fresh(*var) || subpattern.e_fresh(evar_id),''', '''                true || plug.s_fresh(*var) || subpattern.e_fresh(evar_id),'''),
 ('rs_generalization_no_fresh_check', 'C01 C05', RS, '''                    if !right.e_fresh(evar_id) {
                        panic!("The binding variable has to be fresh in the conclusion.");
                    }''', '''                    if false && !right.e_fresh(evar_id) {
                        panic!("The binding variable has to be fresh in the conclusion.");
                    }'''),
 ('rs_esubst_exists_capture_dropped', 'C05', RS, '''            assert!(
                plug.e_fresh(*var),
                "EVar substitution would capture free variable {}!",
                var
            );''', ''''''),
 ('rs_exists_transparent_in_e_fresh', 'C01 C05', RS, '''            Pattern::Exists { var, subpattern } => evar == *var || subpattern.e_fresh(evar),''', '''            Pattern::Exists { var: _, subpattern: _ } => true,'''),
 ('rs_implies_polarity_swapped', 'C05', RS, '''            Pattern::Implies { left, right } => left.negative(svar) && right.positive(svar),''', '''            Pattern::Implies { left, right } => left.positive(svar) && right.positive(svar),'''),
 ('rs_skip_positive_constraint', 'C05', RS, '''                if let Some(svar) = positive
                    .into_iter()
                    .find(|&svar| !plugs[pos].positive(*svar))''', '''                if let Some(svar) = positive
                    .into_iter()
                    .find(|&svar| false && !plugs[pos].positive(*svar))'''),
 ('rs_skip_e_fresh_constraint', 'C01 C05', RS, '''                if let Some(evar) = e_fresh.into_iter().find(|&evar| !plugs[pos].e_fresh(*evar)) {''', '''                if let Some(evar) = e_fresh.into_iter().find(|&evar| false && !plugs[pos].e_fresh(*evar)) {'''),
 ('rs_modus_ponens_no_compare', 'C01 C05', RS, '''                        if *left.as_ref() != *premise2.as_ref() {''', '''                        if false && *left.as_ref() != *premise2.as_ref() {'''),
 ('rs_swap_opcodes_pop_save', 'C05', RS, '''            27 => Instruction::Pop,
            28 => Instruction::Save,''', '''            28 => Instruction::Pop,
            27 => Instruction::Save,'''),
 ('rs_publish_proof_no_compare', 'C05', RS, '''                    if claim != theorem {''', '''                    if false && claim != theorem {'''),
 ('rs_claims_left_ok', 'C05', RS, '''    assert!(
        claims.is_empty(),''', '''    assert!(
        true || claims.is_empty(),'''),
 ('rs_mu_positivity_skipped', 'C01 C05', RS, '''                if !mu_pat.well_formed() {''', '''                if false && !mu_pat.well_formed() {'''),
 ('rs_metavar_four_lists', 'C05', RS, '''                let app_ctx_holes = read_u8_vec(iterator);
''', '''                let app_ctx_holes: Vec<u8> = vec![];
'''),
 ('rs_esubst_operand_order', 'C05 C02', RS, '''                let pattern = pop_stack_pattern(stack);
                let plug = pop_stack_pattern(stack);

                let esubst_pat''', '''                let plug = pop_stack_pattern(stack);
                let pattern = pop_stack_pattern(stack);

                let esubst_pat'''),
 ('rs_memory_cleared_between_phases', 'C05 C02', RS, '''    stack.clear();

    execute_instructions(
        proof_buffer,''', '''    stack.clear();
    memory.clear();

    execute_instructions(
        proof_buffer,'''),
 ('rs_ssubst_positive_best_effort_weakened', 'C05', RS, '''            {
                pattern.positive(svar) && plug.s_fresh(svar)
            }''', '''            {
                pattern.positive(svar)
            }'''),
 ('rs_load_index_masked', 'C05', RS, '''                match &memory[index as usize] {''', '''                match &memory[(index & 0x7f) as usize] {'''),
 ('rs_cleanmetavar_id_masked', 'C05', RS, '''                let metavar_pat = Rc::new(Pattern::MetaVar {
                    id,
                    e_fresh: vec![],''', '''                let metavar_pat = Rc::new(Pattern::MetaVar {
                    id: id & 0x7f,
                    e_fresh: vec![],'''),
 # ---------------- serialiser / tracker (C02, C03, C04)
 ('py_instantiate_keys_not_reversed', 'C02 C04', PY + 'serializing_interpreter.py', '''    def instantiate(self, proved: Proved, delta: dict[int, Pattern]) -> Proved:
        ret = super().instantiate(proved, delta)
        self.out.write(bytes([Instruction.Instantiate, len(delta), *reversed(delta.keys())]))''', '''    def instantiate(self, proved: Proved, delta: dict[int, Pattern]) -> Proved:
        ret = super().instantiate(proved, delta)
        self.out.write(bytes([Instruction.Instantiate, len(delta), *delta.keys()]))'''),
 ('py_claims_not_reversed', 'C02', PY + 'proof.py', '''        for claim in reversed(self._claims):''', '''        for claim in self._claims:'''),
 ('py_load_index_off_by_one', 'C02 C04', PY + 'serializing_interpreter.py', '''        self.out.write(bytes([Instruction.Load, self.memory.index(term)]))''', '''        self.out.write(bytes([Instruction.Load, max(0, self.memory.index(term) - (1 if len(self.memory) > 3 else 0))]))'''),
 ('py_symbol_ids_mod', 'C03', PY + 'serializing_interpreter.py', '''        self.out.write(bytes([Instruction.Symbol, id]))''', '''        self.out.write(bytes([Instruction.Symbol, id % 256]))'''),
 ('py_class_level_symbol_table', 'C18', PY + 'serializing_interpreter.py', '''        super().__init__(phase, out, claims, claim_out, proof_out)
        self._symbol_identifiers: dict[str, int] = {}''', '''        super().__init__(phase, out, claims, claim_out, proof_out)
        self._symbol_identifiers = SerializingInterpreter._shared_symbols'''),
 ('py_skip_submodule_axioms', 'C03', PY + 'proof.py', '''        for submodule in self._submodules:
            submodule.execute_gamma_phase(interpreter, False)''', '''        for submodule in self._submodules[:1]:
            submodule.execute_gamma_phase(interpreter, False)'''),
 ('py_into_proof_phase_keeps_stack', 'C04', PY + 'stateful_interpreter.py', '''    def into_proof_phase(self) -> None:
        self.stack = []''', '''    def into_proof_phase(self) -> None:
        self.stack = self.stack[:1]'''),
 ('py_tracker_pop_does_not_pop', 'C04', PY + 'stateful_interpreter.py', '''        assert self.stack[-1] == term, f'expected: {self.stack[-1]}\\ngot: {term}'
        self.stack.pop()
        super().pop(term)''', '''        assert self.stack[-1] == term, f'expected: {self.stack[-1]}\\ngot: {term}'
        super().pop(term)'''),
 ('mm_memory_offset_off_by_one', 'C16', PY + 'metamath/translate.py', '''                interpreter().load(str(mm_memory[lemma - memory_offset - 1]), mm_memory[lemma - memory_offset - 1])''', '''                interpreter().load(str(mm_memory[lemma - memory_offset - 2]), mm_memory[lemma - memory_offset - 2])'''),
 ('py_deser_metavar_constraints_as_ints', 'C14', PY + 'deserialize.py', '''                tuple(EVar(v) for v in e_fresh),''', '''                tuple(e_fresh),'''),
 # ---------------- rules (C07)
 ('py_mp_no_antecedent_check', 'C07', PY + 'basic_interpreter.py', '''        assert l == right.conclusion, str(l) + ' != ' + str(right.conclusion)''', '''        pass'''),
 ('py_generalization_no_fresh_check', 'C07', PY + 'basic_interpreter.py', '''        assert r.evar_is_free(var.name), f'{str(var)} in FV({str(r)})\'''', '''        pass'''),
 ('py_esubst_fresh_in_plug_only', 'C07', PY + 'pattern.py', '''        # We assume that at least one instance will be replaced
        return self.pattern.evar_is_free(name) and self.plug.evar_is_free(name)

    def metavars(self) -> set[int]:
        return self.pattern.metavars().union(self.plug.metavars())

    def instantiate(self, delta: Mapping[int, Pattern]) -> Pattern:
        if not delta:
            return self
        return self.pattern.instantiate(delta).apply_esubst''', '''        # We assume that at least one instance will be replaced
        return self.plug.evar_is_free(name)

    def metavars(self) -> set[int]:
        return self.pattern.metavars().union(self.plug.metavars())

    def instantiate(self, delta: Mapping[int, Pattern]) -> Pattern:
        if not delta:
            return self
        return self.pattern.instantiate(delta).apply_esubst'''),
 # ---------------- deserialiser (C14)
 ('py_deser_instantiate_keys_unreversed', 'C14', PY + 'deserialize.py', '''            delta = dict(reversed(list(zip(keys, values, strict=True))))''', '''            delta = dict(list(zip(keys, values, strict=True)))'''),
 ('py_deser_truncated_metavar_list_ok', 'C14', PY + 'deserialize.py', '''        for i in range(length):
            elem = next_byte(f'Expected {i}-th element of list')
            assert elem is not None
            res.append(elem)''', '''        for i in range(length):
            elem = maybe_next_byte()
            if elem is None:
                break
            res.append(elem)'''),
 # ---------------- pretty (C19)
 ('py_pretty_save_prints_stack', 'C19', PY + 'pretty_printing_interpreter.py', '''    @pretty(print_stack=False)
    def save(self, id: str, term: Pattern | Proved) -> None:
        self.out.write('Save')''', '''    @pretty(print_stack=False)
    def save(self, id: str, term: Pattern | Proved) -> None:
        self.out.write('Save\\nSaved')'''),
 ('py_pretty_load_wrong_index', 'C19', PY + 'pretty_printing_interpreter.py', '''        self.out.write(str(self.memory.index(term)))''', '''        self.out.write(str(len(self.memory) - 1))'''),
 ('py_pretty_generalization_no_var', 'C19', PY + 'pretty_printing_interpreter.py', '''        self.out.write(f'Generalization {var.name}')''', '''        self.out.write('Generalization 0')'''),
 ('py_notation_and_drops_arg', 'C19', PY + 'pattern.py', """'({0} ⋀ {1})')""", """'({0} ⋀ {0})')"""),
 # ---------------- K traces (C20)
 ('k_chain_assert_dropped', 'C20', PY + 'k/execution_proof_generation.py', '''        assert (
            lhs == self.current_configuration
        ), f''', '''        assert (
            True or lhs == self.current_configuration
        ), f'''),
 ('k_curr_config_is_lhs', 'C20', PY + 'k/execution_proof_generation.py', '''        self._curr_config = rhs''', '''        self._curr_config = lhs'''),
 ('k_claim_is_rule_not_instance', 'C20', PY + 'k/execution_proof_generation.py', '''        self.add_claim(instantiated_axiom)''', '''        self.add_claim(rule.pattern)'''),
 ('k_metavar_numbering_collides', 'C20', PY + 'k/kore_convertion/language_semantics.py', '''            self._metavars[name] = MetaVar(name=len(self._metavars))''', '''            self._metavars[name] = MetaVar(name=max(0, len(self._metavars) - 1))'''),
 # ---------------- interpreters (C08)
 ('py_transformer_gen_not_delegated', 'C08', PY + 'interpreter_transformer.py', '''        ret = self.sub_interpreter.exists_generalization(proved, var)
        return ret''', '''        from proof_generation.basic_interpreter import BasicInterpreter
        ret = BasicInterpreter(self.phase).exists_generalization(proved, var)
        return ret'''),
 ('py_dynamic_inst_writes_back_simplified', 'C18', PY + 'proof.py', '''            for idn, p in delta.items():
                delta[idn] = interpreter.pattern(p)''', '''            for idn, p in delta.items():
                q = interpreter.pattern(p)
                delta[idn] = q.simplify() if hasattr(q, 'simplify') else q'''),
 # ---------------- determinism (C18)
 ('py_claims_via_set', 'C18', PY + 'proof.py', '''        claims = [Claim(claim) for claim in self._claims]
        serializer''', '''        claims = [Claim(claim) for claim in self._claims]
        self._axioms = list({str(a): a for a in sorted(self._axioms, key=hash)}.values())
        serializer'''),
 ('py_memo_candidates_sorted_by_hash', 'C18', PY + 'counting_interpreter.py', '''                suitable.sort(key=lambda pattern: self._pattern_usage[pattern].complexity_score, reverse=True)''', '''                suitable.sort(key=lambda pattern: (self._pattern_usage[pattern].complexity_score, hash(str(pattern))), reverse=True)'''),
 ('py_counting_state_global', 'C18', PY + 'counting_interpreter.py', '''        self._pattern_usage: dict[Pattern, CountingInterpreter.Stats] = {}''', '''        self._pattern_usage: dict[Pattern, CountingInterpreter.Stats] = CountingInterpreter._GLOBAL_USAGE'''),
 # ---------------- metamath (C15, C16)
 ('mm_base5_slip', 'C15', PY + 'metamath/converter/converter.py', '''                n += msdigit[letter] * pow(5, exp) * 20''', '''                n += msdigit[letter] * pow(5, exp) * 20 if exp < 2 else msdigit[letter] * pow(4, exp) * 20'''),
 ('mm_z_recorded_before', 'C15 C16', PY + 'metamath/converter/converter.py', '''                # The choice of 0 is arbitrary to denote Load
                result.applied_lemmas.append(0)''', '''                # The choice of 0 is arbitrary to denote Load
                result.applied_lemmas.insert(max(0, len(result.applied_lemmas) - 1), 0)'''),
 ('mm_mandatory_sorted_by_name', 'C15 C16', PY + 'metamath/converter/converter.py', '''            for metavar in self._floating_patterns:
                if metavar not in mandatory:''', '''            for metavar in sorted(self._floating_patterns):
                if metavar not in mandatory:'''),
 ('mm_mp_pops_two', 'C16', PY + 'metamath/translate.py', '''                interpreter().pop(stack()[-1])
                interpreter().pop(stack()[-1])
                interpreter().pop(stack()[-1])
                interpreter().load(conclusion_name, conclusion)''', '''                interpreter().pop(stack()[-1])
                interpreter().pop(stack()[-1])
                interpreter().load(conclusion_name, conclusion)'''),
 ('mm_antecedents_forward_order', 'C16', PY + 'metamath/translate.py', '''                for eh, pat in reversed(saved_antecedents):''', '''                for eh, pat in saved_antecedents:'''),
 # ---------------- K hint streams (C20)
 ('k_hints_refusal_swallowed', 'C20', PY + 'k/execution_proof_generation.py', '''            if isinstance(hint.axiom, KRewritingRule):
                proof_expr.rewrite_event(hint.axiom, hint.substitutions)''', '''            if isinstance(hint.axiom, KRewritingRule):
                try:
                    proof_expr.rewrite_event(hint.axiom, hint.substitutions)
                except AssertionError:
                    continue'''),
 ('k_hints_config_taken_from_stream', 'C20', PY + 'k/execution_proof_generation.py', '''                proof_expr.rewrite_event(hint.axiom, hint.substitutions)''', '''                proof_expr._curr_config = hint.configuration_before
                proof_expr.rewrite_event(hint.axiom, hint.substitutions)'''),
]

EXTRA_PREAMBLE = {
 'py_class_level_symbol_table': (PY + 'serializing_interpreter.py', 'class SerializingInterpreter(IOInterpreter):\n', 'class SerializingInterpreter(IOInterpreter):\n    _shared_symbols: dict[str, int] = {}\n\n'),
 'py_counting_state_global': (PY + 'counting_interpreter.py', "    Stats = namedtuple('Stats', ['uses', 'complexity_score', 'complexity', 'used_patterns'])\n", "    Stats = namedtuple('Stats', ['uses', 'complexity_score', 'complexity', 'used_patterns'])\n    _GLOBAL_USAGE: dict = {}\n"),
}


def main():
    os.makedirs(OUT, exist_ok=True)
    bad = 0
    for name, expect, rel, old, new in M:
        path = os.path.join(REPO, rel)
        src = open(path).read()
        if src.count(old) != 1:
            print('SKIP %s: anchor found %d times' % (name, src.count(old)))
            bad += 1
            continue
        dst = src.replace(old, new)
        if name in EXTRA_PREAMBLE:
            r2, o2, n2 = EXTRA_PREAMBLE[name]
            assert r2 == rel and dst.count(o2) == 1, name
            dst = dst.replace(o2, n2)
        diff = ''.join(difflib.unified_diff(src.splitlines(True), dst.splitlines(True), 'a/' + rel, 'b/' + rel))
        with open(os.path.join(OUT, 'hand_%s.patch' % name), 'w') as f:
            f.write('# hand-written sensitivity mutant: %s\n# expect: %s\n# base: HEAD\n' % (name, expect))
            f.write(diff)
    print('%d mutants written, %d skipped' % (len(M) - bad, bad))


main()
