#!/usr/bin/env python3
"""Sensitivity self-test: every mutant patch under selftest/mutants/ is applied to a scratch
git worktree of /repo (outside /repo and /verif, removed afterwards together with its build
output), the quick check of each property named in the patch header is pointed at the copy
(PI2_REPO) and must exit 1 with a VIOLATION line.

Patch header lines:   # expect: C05 C01        (checks that must catch it)
                      # base: HEAD | <commit>  (tree the patch applies to; default HEAD)
usage: selftest/sensitivity.py [--only substring] [--jobs N] [--runs N]"""
import argparse, glob, json, os, shutil, subprocess, sys, tempfile, time

VERIF = os.path.dirname(os.path.dirname(os.path.abspath(__file__)))


def header(path):
    exp, base = [], 'HEAD'
    for line in open(path):
        if line.startswith('# expect:'): exp = line.split(':', 1)[1].split()
        if line.startswith('# base:'): base = line.split(':', 1)[1].strip()
        if not line.startswith('#'): break
    return exp, base


def run_one(patch, args):
    exp, base = header(patch)
    wt = tempfile.mkdtemp(prefix='pi2_mut_')
    os.rmdir(wt)
    res = {'mutant': os.path.basename(patch), 'expect': exp, 'results': {}}
    try:
        subprocess.run(['git', '-C', '/repo', 'worktree', 'add', '--detach', '-f', wt, base], check=True, capture_output=True)
        r = subprocess.run(['git', '-C', wt, 'apply', '--whitespace=nowarn', patch], capture_output=True, text=True)
        if r.returncode != 0:
            res['error'] = 'patch does not apply: ' + r.stderr[-300:]
            return res
        for prop in exp:
            env = dict(os.environ, PI2_REPO=wt)
            cmd = [os.path.join(VERIF, 'check'), prop, 'quick', '--no-evidence']
            if args.runs: cmd += ['--runs', str(args.runs)]
            t = time.time()
            p = subprocess.run(cmd, env=env, capture_output=True, text=True, cwd=VERIF)
            viol = [l for l in p.stdout.split('\n') if l.startswith('VIOLATION')]
            sig = [l.strip() for l in p.stdout.split('\n') if 'signature=' in l]
            nruns = sum(int(s.split(' runs=')[1].split()[0]) for s in sig if ' runs=' in s)
            res['results'][prop] = {'exit': p.returncode, 'caught': p.returncode == 1 and bool(viol), 'wall_s': round(time.time() - t, 1),
                                    'signatures': [s.split('signature=')[1].split()[0] for s in sig][:4], 'violating_runs': nruns}
            # the first replay file must reproduce the violation in a fresh process against the changed tree and must
            # NOT report anything against /repo itself (a minimised scenario that fails on the good tree would be a false alarm)
            if viol:
                rp = viol[0].split('replay=')[1].strip()
                if os.path.exists(rp):
                    q = subprocess.run([os.path.join(VERIF, 'check'), prop, 'quick', '--replay', rp], env=env, capture_output=True, text=True, cwd=VERIF)
                    g = subprocess.run([os.path.join(VERIF, 'check'), prop, 'quick', '--replay', rp], env=dict(os.environ, PI2_REPO='/repo'), capture_output=True, text=True, cwd=VERIF)
                    res['results'][prop]['replay_on_changed_tree_exit'] = q.returncode
                    res['results'][prop]['replay_on_repo_exit'] = g.returncode
                    if q.returncode != 1 or g.returncode != 0:
                        res['results'][prop]['caught'] = False
                        res['results'][prop]['replay_problem'] = (q.stdout[-300:] if q.returncode != 1 else g.stdout[-300:])
            # replays written against a scratch tree are not kept
            for l in viol:
                rp = l.split('replay=')[1].strip()
                if os.path.exists(rp): os.remove(rp)
    finally:
        subprocess.run(['git', '-C', '/repo', 'worktree', 'remove', '--force', wt], capture_output=True)
        shutil.rmtree(wt, ignore_errors=True)
        subprocess.run(['git', '-C', '/repo', 'worktree', 'prune'], capture_output=True)
    return res


def main():
    ap = argparse.ArgumentParser()
    ap.add_argument('--only')
    ap.add_argument('--runs', type=int)
    ap.add_argument('--merge', action='store_true')
    ap.add_argument('--out', default=os.path.join(VERIF, 'selftest', 'sensitivity_result.json'))
    a = ap.parse_args()
    patches = sorted(glob.glob(os.path.join(VERIF, 'selftest', 'mutants', '*.patch')))
    if a.only:
        patches = [p for p in patches if any(o in p for o in a.only.split(','))]
    allres, missed = [], 0
    for p in patches:
        r = run_one(p, a)
        allres.append(r)
        line = r['mutant'] + ': ' + (r.get('error') or ', '.join('%s=%s(%ss, %d runs%s)%s' % (k, 'CAUGHT' if v['caught'] else 'MISSED exit=%d' % v['exit'], v['wall_s'], v.get('violating_runs', 0), ', FRAGILE' if v['caught'] and v.get('violating_runs', 0) <= 2 else '', v['signatures'][:2]) for k, v in r['results'].items()))
        print(line, flush=True)
        missed += sum(1 for v in r['results'].values() if not v['caught']) + (1 if r.get('error') else 0)
    if a.merge and os.path.exists(a.out):
        # re-run of a few mutants after a workload change: replace their entries in the existing result
        old = {r['mutant']: r for r in json.load(open(a.out))}
        old.update({r['mutant']: r for r in allres})
        allres = [old[k] for k in sorted(old)]
        missed = sum(sum(1 for v in r['results'].values() if not v['caught']) + (1 if r.get('error') else 0) for r in allres)
    with open(a.out, 'w') as f:
        json.dump(allres, f, indent=1)
    print('mutants=%d missed=%d' % (len(allres), missed))
    subprocess.run(['python3', '-c', 'import sys; sys.path.insert(0, %r); from sim import rust; rust.gc_builds(4)' % VERIF])
    return 1 if missed else 0


if __name__ == '__main__':
    sys.exit(main())
