#!/usr/bin/env python3
"""Re-checks every filed seeded change against the machinery as it stands: seeded/<id>/patch.diff is applied to a
scratch git worktree of /repo HEAD (outside /repo and /verif, removed afterwards), the quick check of the property the
change breaks is pointed at it (PI2_REPO) and must exit 1 with a VIOLATION line.  Result: selftest/seeded_recheck_result.json.

usage: selftest/seeded_recheck.py [--only substring,...]"""
import argparse, glob, json, os, shutil, subprocess, sys, tempfile, time

VERIF = os.path.dirname(os.path.dirname(os.path.abspath(__file__)))


def main():
    ap = argparse.ArgumentParser()
    ap.add_argument('--only')
    ap.add_argument('--merge', action='store_true')
    ap.add_argument('--out', default=os.path.join(VERIF, 'selftest', 'seeded_recheck_result.json'))
    a = ap.parse_args()
    res, missed = [], 0
    for m in sorted(glob.glob(os.path.join(VERIF, 'seeded', '*', 'meta.json'))):
        meta = json.load(open(m))
        sid, prop = meta['id'], meta['breaks']
        if a.only and not any(o in sid for o in a.only.split(',')):
            continue
        wt = tempfile.mkdtemp(prefix='pi2_seedre_'); os.rmdir(wt)
        r = {'id': sid, 'property': prop}
        try:
            subprocess.run(['git', '-C', '/repo', 'worktree', 'add', '--detach', '-f', wt, 'HEAD'], check=True, capture_output=True)
            ap_ = subprocess.run(['git', '-C', wt, 'apply', '--whitespace=nowarn', os.path.join(os.path.dirname(m), 'patch.diff')], capture_output=True, text=True)
            if ap_.returncode:
                r['error'] = 'patch does not apply to HEAD: ' + ap_.stderr[-200:]
            else:
                t = time.time()
                p = subprocess.run([os.path.join(VERIF, 'check'), prop, 'quick', '--no-evidence'], env=dict(os.environ, PI2_REPO=wt), capture_output=True, text=True, cwd=VERIF)
                sig = [l for l in p.stdout.split('\n') if 'signature=' in l]
                r.update(exit=p.returncode, caught=p.returncode == 1, wall_s=round(time.time() - t, 1),
                         signatures=sorted(set(s.split('signature=')[1].split()[0] for s in sig))[:4],
                         violating_runs=sum(int(s.split(' runs=')[1].split()[0]) for s in sig if ' runs=' in s))
                for l in p.stdout.split('\n'):
                    if l.startswith('VIOLATION') and 'replay=' in l:
                        rp = l.split('replay=')[1].strip()
                        if os.path.exists(rp): os.remove(rp)
        finally:
            subprocess.run(['git', '-C', '/repo', 'worktree', 'remove', '--force', wt], capture_output=True)
            shutil.rmtree(wt, ignore_errors=True)
            subprocess.run(['git', '-C', '/repo', 'worktree', 'prune'], capture_output=True)
        res.append(r)
        bad = r.get('error') or not r.get('caught')
        missed += 1 if bad else 0
        print('%s: %s' % (sid, r.get('error') or ('%s %s(%ss, %d runs%s) %s' % (prop, 'CAUGHT' if r['caught'] else 'MISSED exit=%d' % r['exit'], r['wall_s'], r['violating_runs'],
                                                                             ', FRAGILE' if r['caught'] and r['violating_runs'] <= 2 else '', r['signatures'][:2]))), flush=True)
    if a.merge and os.path.exists(a.out):
        old = {r['id']: r for r in json.load(open(a.out))}
        old.update({r['id']: r for r in res})
        res = [old[k] for k in sorted(old)]
        missed = sum(1 for r in res if r.get('error') or not r.get('caught'))
    with open(a.out, 'w') as f:
        json.dump(res, f, indent=1)
    print('seeded=%d missed=%d' % (len(res), missed))
    subprocess.run(['python3', '-c', 'import sys; sys.path.insert(0, %r); from sim import rust; rust.gc_builds(4)' % VERIF])
    return 1 if missed else 0


if __name__ == '__main__':
    sys.exit(main())
