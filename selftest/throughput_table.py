#!/usr/bin/env python3
"""Prints the 'measured' table of DESIGN.md section 13 from the committed evidence files."""
import glob, json, os
VERIF = os.path.dirname(os.path.dirname(os.path.abspath(__file__)))
print('| id | tier | runs | non-trivial distinct | runs/h | operations stepped | faults fired | abstract transitions | slowest run | wall |')
print('|---|---|---|---|---|---|---|---|---|---|')
for f in sorted(glob.glob(os.path.join(VERIF, 'evidence', 'C*.json'))):
    d = json.load(open(f)); c = d['coverage']
    faults = ', '.join('%s %d' % kv for kv in sorted(c['faults_fired'].items())) or '— (fault-free class)'
    print('| %s | %s | %d | %d | %s | %d | %s | %d | %.0f s | %.0f s |' % (d['property_id'], d['tier'], c['evaluations'], c['distinct_nontrivial'], '{:,}'.format(c['runs_per_hour']),
          c['operations_stepped'], faults, c['distinct_abstract_transitions'], c['slowest_run_s'], d['wall_s']))
