#!/usr/bin/env python3
"""Confirms an independently written breaking change in a scratch git worktree of /repo and, if
everything holds, files it under /verif/seeded/<id>/ (patch.diff, the demonstration, meta.json).

Confirmed here: the patch applies to HEAD; the demonstration passes WITHOUT the change and fails
WITH it; with the change the project still builds (rustc, for Rust changes: plus all shipped
triples still accepted) and the pinned Python suite still has its 188 passes (for Python changes).
Afterwards the quick checks named in --props are run against the patched scratch tree.

usage: confirm_seeded.py --id S01 --patch P --demo D --cmd 'python3 {demo} {checker}' --kind rust|python
                         --breaks C01 --needs 'text' [--props C01,C05] [--extra file ...] [--skip-pytest]"""
import argparse, glob, json, os, shutil, subprocess, sys, tempfile, time

VERIF = os.path.dirname(os.path.dirname(os.path.abspath(__file__)))
RUSTC = ['rustc', '--edition', '2021', '-O', '--cap-lints', 'warn']
ENV = dict(os.environ, RUSTUP_TOOLCHAIN='stable')


def sh(cmd, **kw):
    return subprocess.run(cmd, capture_output=True, text=True, **kw)


def build_checker(wt, out):
    d = out + '_lib'
    os.makedirs(d, exist_ok=True)
    rlib = os.path.join(d, 'libchecker.rlib')
    r = sh(RUSTC + ['--crate-type', 'rlib', '--crate-name', 'checker', '-o', rlib, os.path.join(wt, 'rust/src/lib.rs')], env=ENV, cwd=d)
    if r.returncode: return False, r.stderr[-500:]
    r = sh(RUSTC + ['--crate-type', 'bin', '-o', out, '--extern', 'checker=' + rlib, os.path.join(wt, 'rust/src/main.rs')], env=ENV, cwd=d)
    return r.returncode == 0, r.stderr[-500:]


def shipped_ok(wt, checker):
    bad = []
    for g in sorted(glob.glob(os.path.join(wt, 'proofs/**/*.ml-gamma'), recursive=True)):
        b = g[:-len('.ml-gamma')]
        if os.path.exists(b + '.ml-proof') and sh([checker, g, b + '.ml-claim', b + '.ml-proof']).returncode != 0:
            bad.append(os.path.relpath(b, wt))
    return bad


def main():
    ap = argparse.ArgumentParser()
    ap.add_argument('--id', required=True); ap.add_argument('--patch', required=True); ap.add_argument('--demo', required=True)
    ap.add_argument('--cmd', required=True); ap.add_argument('--kind', required=True, choices=['rust', 'python'])
    ap.add_argument('--breaks', required=True); ap.add_argument('--needs', required=True)
    ap.add_argument('--props', default=''); ap.add_argument('--extra', nargs='*', default=[]); ap.add_argument('--skip-pytest', action='store_true')
    ap.add_argument('--pythonpath-prefix', default='')
    a = ap.parse_args()
    wt = tempfile.mkdtemp(prefix='pi2_seed_'); os.rmdir(wt)
    scratch = tempfile.mkdtemp(prefix='pi2_seedout_')
    meta = {'id': a.id, 'breaks': a.breaks, 'needs_to_manifest': a.needs, 'kind': a.kind, 'ran': [], 'confirmed': False}
    try:
        sh(['git', '-C', '/repo', 'worktree', 'add', '--detach', '-f', wt, 'HEAD'])
        demo = os.path.join(scratch, os.path.basename(a.demo)); shutil.copy(a.demo, demo)
        for e in a.extra: shutil.copy(e, scratch)
        pp = (a.pythonpath_prefix + ':' if a.pythonpath_prefix else '') + os.path.join(wt, 'generation/src')
        env = dict(ENV, PYTHONPATH=pp, PI2_WT=wt)

        def run_demo(tag):
            checker = os.path.join(scratch, 'checker_' + tag)
            ok, err = build_checker(wt, checker)
            if not ok: return None, 'build failed: ' + err
            cmd = a.cmd.format(demo=demo, checker=checker, wt=wt, out=scratch, py='/venv/bin/python')
            r = sh(cmd, shell=True, env=env, cwd=scratch, timeout=1800)
            meta['ran'].append({'tree': tag, 'cmd': cmd, 'exit': r.returncode, 'tail': (r.stdout + r.stderr)[-300:]})
            return r.returncode, checker
        rc0, chk0 = run_demo('pristine')
        r = sh(['git', '-C', wt, 'apply', '--whitespace=nowarn', os.path.abspath(a.patch)])
        if r.returncode:
            meta['error'] = 'patch does not apply: ' + r.stderr[-300:]
        else:
            rc1, chk1 = run_demo('changed')
            meta['demo_passes_without_change'] = rc0 == 0
            meta['demo_fails_with_change'] = rc1 not in (0, None)
            meta['builds_with_change'] = rc1 is not None
            if a.kind == 'rust' and rc1 is not None:
                bad = shipped_ok(wt, chk1)
                meta['shipped_triples_rejected_with_change'] = bad
            if a.kind == 'python' and not a.skip_pytest:
                t = time.time()
                r = sh(['/venv/bin/python', '-m', 'pytest', '-q', '-p', 'no:cacheprovider', '--timeout=900', '--continue-on-collection-errors'], cwd=wt, env=dict(os.environ))
                tail = r.stdout.strip().split('\n')[-1]
                meta['pytest_with_change'] = tail
                meta['pytest_ok'] = ' 188 passed' in tail and '1 failed' in tail
                meta['ran'].append({'cmd': 'pytest (pinned command) in the patched scratch worktree', 'tail': tail, 'wall_s': round(time.time() - t)})
            checks = {}
            for p in [x for x in a.props.split(',') if x]:
                r = sh([os.path.join(VERIF, 'check'), p, 'quick', '--no-evidence'], env=dict(os.environ, PI2_REPO=wt), cwd=VERIF)
                sigs = sorted(set(l.split('signature=')[1].split()[0] for l in r.stdout.split('\n') if 'signature=' in l))
                checks[p] = {'exit': r.returncode, 'caught': r.returncode == 1, 'signatures': sigs[:5]}
                for l in r.stdout.split('\n'):
                    if l.startswith('VIOLATION') and 'replay=' in l:
                        rp = l.split('replay=')[1].strip()
                        if os.path.exists(rp): os.remove(rp)
            meta['checks_against_change'] = checks
            meta['confirmed'] = bool(meta['demo_passes_without_change'] and meta['demo_fails_with_change'] and meta['builds_with_change']
                                     and (a.kind != 'rust' or not meta.get('shipped_triples_rejected_with_change'))
                                     and (a.kind != 'python' or a.skip_pytest or meta.get('pytest_ok')))
        if meta['confirmed']:
            dst = os.path.join(VERIF, 'seeded', a.id)
            os.makedirs(dst, exist_ok=True)
            shutil.copy(a.patch, os.path.join(dst, 'patch.diff'))
            shutil.copy(a.demo, dst)
            for e in a.extra: shutil.copy(e, dst)
            with open(os.path.join(dst, 'meta.json'), 'w') as f:
                json.dump(meta, f, indent=1)
        print(json.dumps(meta, indent=1))
    finally:
        sh(['git', '-C', '/repo', 'worktree', 'remove', '--force', wt]); shutil.rmtree(wt, ignore_errors=True); shutil.rmtree(scratch, ignore_errors=True)
        sh(['git', '-C', '/repo', 'worktree', 'prune'])
    return 0 if meta['confirmed'] else 1


if __name__ == '__main__':
    sys.exit(main())
