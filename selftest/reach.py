#!/usr/bin/env python3
"""Reach self-assessment: runs the quick tier of every check with line monitoring of the toolkit
switched on (VERIF_COV) and reports, per anchored Python file, which executable lines no check's
workload ever executed, and which functions were never entered.  A function stuck at zero is a
blind spot of the workload (or dead code); nothing here is a verdict.

usage: selftest/reach.py [--props C02,C04] [--runs N] [--out selftest/reach_result.json]"""
import argparse, glob, json, os, shutil, subprocess, sys, tempfile, types

VERIF = os.path.dirname(os.path.dirname(os.path.abspath(__file__)))
sys.path.insert(0, VERIF)
from sim.registry import ENGINES  # noqa


def executable(path):
    """(set of executable lines, {function qualname: (first line, lines)})"""
    src = open(path).read()
    code = compile(src, path, 'exec')
    lines, funcs = set(), {}

    def walk(c, prefix):
        own = set(l for _, _, l in c.co_lines() if l is not None)
        if c.co_name != '<module>':
            own.discard(c.co_firstlineno)
        lines.update(own)
        if c.co_flags & 0x1 and c.co_name not in ('<lambda>', '<genexpr>', '<listcomp>', '<dictcomp>', '<setcomp>'):
            funcs[prefix + c.co_name] = (c.co_firstlineno, own)
        for k in c.co_consts:
            if isinstance(k, types.CodeType):
                walk(k, (prefix + c.co_name + '.') if c.co_name != '<module>' else '')
    walk(code, '')
    return lines, funcs


def main():
    ap = argparse.ArgumentParser()
    ap.add_argument('--props', default=','.join(sorted(ENGINES)))
    ap.add_argument('--runs', type=int)
    ap.add_argument('--out', default=os.path.join(VERIF, 'selftest', 'reach_result.json'))
    a = ap.parse_args()
    repo = os.environ.get('PI2_REPO', '/repo')
    root = os.path.join(repo, 'generation', 'src')
    hit = {}
    per_prop = {}
    for prop in a.props.split(','):
        d = tempfile.mkdtemp(prefix='reach_')
        try:
            cmd = [os.path.join(VERIF, 'check'), prop, 'quick', '--no-evidence'] + (['--runs', str(a.runs)] if a.runs else [])
            r = subprocess.run(cmd, env=dict(os.environ, VERIF_COV=d), capture_output=True, text=True, cwd=VERIF)
            mine = set()
            for f in glob.glob(os.path.join(d, '*.json')):
                mine.update((x, y) for x, y in json.load(open(f)))
            per_prop[prop] = {'exit': r.returncode, 'lines': len(mine)}
            for x in mine:
                hit.setdefault(x[0], set()).add(x[1])
            print('%s exit=%d lines=%d' % (prop, r.returncode, len(mine)), flush=True)
        finally:
            shutil.rmtree(d, ignore_errors=True)
    report = {}
    for path in sorted(glob.glob(os.path.join(root, 'proof_generation', '**', '*.py'), recursive=True)):
        rel = os.path.relpath(path, root)
        if '/tests/' in rel or rel.endswith('__init__.py'):
            continue
        ex, funcs = executable(path)
        got = hit.get(rel, set())
        never = sorted(n for n, (first, ls) in funcs.items() if ls and not (ls & got))
        report[rel] = {'executable_lines': len(ex), 'executed': len(ex & got), 'functions': len(funcs), 'functions_never_entered': never}
    with open(a.out, 'w') as f:
        json.dump({'per_check': per_prop, 'files': report}, f, indent=1)
    for rel, r in report.items():
        print('%-70s %4d/%4d lines  never entered: %s' % (rel, r['executed'], r['executable_lines'], ', '.join(r['functions_never_entered'][:12]) + (' …' if len(r['functions_never_entered']) > 12 else '')))


if __name__ == '__main__':
    main()
