#!/bin/sh
# usage: selftest/try_seeded.sh <patch> <prop> [<prop> ...]   -- applies the patch to /repo, runs the quick checks, undoes it
patch="$1"; shift
cd /repo || exit 2
git diff --quiet || { echo "/repo has uncommitted changes"; exit 2; }
git apply --whitespace=nowarn "$patch" || { echo "patch does not apply"; exit 2; }
cd /verif
for p in "$@"; do
  ./check "$p" quick --no-evidence > /tmp/try_seeded_$p.log 2>&1
  echo "$p exit=$? $(grep -c '^VIOLATION' /tmp/try_seeded_$p.log) violation(s): $(grep 'signature=' /tmp/try_seeded_$p.log | sed 's/.*signature=\([^ ]*\).*/\1/' | sort -u | head -4 | tr '\n' ' ')"
  for r in $(grep '^VIOLATION' /tmp/try_seeded_$p.log | sed 's/.*replay=//'); do rm -f "$r"; done
done
git -C /repo checkout -- .
