#!/bin/sh
# usage: selftest/try_seeded.sh <patch> <prop> [<prop> ...]
# applies the patch to a scratch git worktree of /repo HEAD (never to /repo itself, so that checks
# running concurrently against /repo are not disturbed), runs the quick checks against it, removes it
patch="$1"; shift
wt=$(mktemp -d /tmp/pi2_try_XXXXXX); rmdir "$wt"
git -C /repo worktree add --detach -f "$wt" HEAD >/dev/null 2>&1 || exit 2
git -C "$wt" apply --whitespace=nowarn "$patch" || { echo "patch does not apply"; git -C /repo worktree remove --force "$wt"; exit 2; }
cd /verif
for p in "$@"; do
  PI2_REPO="$wt" ./check "$p" quick --no-evidence > /tmp/try_seeded_$p.log 2>&1
  echo "$p exit=$? $(grep -c '^VIOLATION' /tmp/try_seeded_$p.log) violation(s): $(grep 'signature=' /tmp/try_seeded_$p.log | sed 's/.*signature=\([^ ]*\).*/\1/' | sort -u | head -4 | tr '\n' ' ')"
  for r in $(grep '^VIOLATION' /tmp/try_seeded_$p.log | sed 's/.*replay=//'); do rm -f "$r"; done
done
git -C /repo worktree remove --force "$wt"; git -C /repo worktree prune
