#!/usr/bin/env python3
"""Determinism self-test: for every registered check a sample of run indices is executed four
times -- 16 workers, 4 workers, 1 worker (a prefix), and 16 workers with the workers started
under another PYTHONHASHSEED -- and the per-run event-log digests must be identical.
usage: selftest/determinism.py [--props C05,C04] [--runs N]"""
import argparse, json, os, subprocess, sys, tempfile, time

VERIF = os.path.dirname(os.path.dirname(os.path.abspath(__file__)))
sys.path.insert(0, VERIF)
from sim import registry

SAMPLE = {'C01': 600, 'C02': 120, 'C03': 120, 'C04': 400, 'C05': 300, 'C07': 600, 'C08': 100, 'C14': 80, 'C15': 60, 'C16': 40, 'C18': 24, 'C19': 60, 'C20': 200}


def run(prop, runs, workers, hashseed, out):
    cmd = [os.path.join(VERIF, 'check'), prop, 'quick', '--no-evidence', '--runs', str(runs), '--workers', str(workers), '--wall', '900',
           '--hashseed', str(hashseed), '--digests-out', out]
    p = subprocess.run(cmd, cwd=VERIF, capture_output=True, text=True)
    # replays written by these runs are duplicates of what the real checks report
    for l in p.stdout.split('\n'):
        if l.startswith('VIOLATION') and 'replay=' in l:
            rp = l.split('replay=')[1].strip()
            if os.path.exists(rp): os.remove(rp)
    return json.load(open(out)), p.returncode


def main():
    ap = argparse.ArgumentParser()
    ap.add_argument('--props')
    ap.add_argument('--scale', type=float, default=1.0)
    a = ap.parse_args()
    props = a.props.split(',') if a.props else sorted(registry.ENGINES)
    bad = 0
    report = {}
    with tempfile.TemporaryDirectory(prefix='vdet_') as d:
        for prop in props:
            n = max(8, int(SAMPLE.get(prop, 100) * a.scale))
            t = time.time()
            configs = [('w16', n, 16, 0), ('w4', n, 4, 0), ('w1', max(4, n // 8), 1, 0), ('w16-hashseed7', n, 16, 7)]
            res = {}
            for name, runs, w, h in configs:
                res[name], rc = run(prop, runs, w, h, os.path.join(d, '%s_%s.json' % (prop, name)))
            base = res['w16']
            diffs = {}
            for name in ('w4', 'w1', 'w16-hashseed7'):
                common = set(base) & set(res[name])
                diffs[name] = sorted(int(k) for k in common if base[k] != res[name][k])
            ok = not any(diffs.values())
            report[prop] = {'runs': len(base), 'differing_runs': diffs, 'wall_s': round(time.time() - t, 1)}
            print('%s: %d runs x 4 executions: %s  (%.0fs)' % (prop, len(base), 'IDENTICAL' if ok else 'DIFFER %s' % {k: v[:5] for k, v in diffs.items() if v}, time.time() - t), flush=True)
            bad += 0 if ok else 1
    with open(os.path.join(VERIF, 'selftest', 'determinism_result.json'), 'w') as f:
        json.dump(report, f, indent=1)
    return 1 if bad else 0


if __name__ == '__main__':
    sys.exit(main())
