#!/usr/bin/env python3
"""Writes /verif/seeded/README.md from the meta.json files and the sensitivity result."""
import glob, json, os
VERIF = os.path.dirname(os.path.dirname(os.path.abspath(__file__)))
rows = []
for m in sorted(glob.glob(os.path.join(VERIF, 'seeded', '*', 'meta.json'))):
    d = json.load(open(m))
    checks = d.get('checks_against_change', {})
    rows.append((d['id'], d['breaks'], d['kind'], d['needs_to_manifest'],
                 ', '.join('%s: %s' % (k, 'caught (%s)' % ', '.join(v['signatures'][:2]) if v['caught'] else 'MISSED') for k, v in checks.items()),
                 d.get('pytest_with_change', 'n/a (Rust-only change: compiles, all shipped triples still accepted)')))
out = ['# Seeded breaking changes', '',
       'Each directory holds a change to TheBlueLizard/pi2 written by an independent sub-agent that was given only the text of a property and its own scratch',
       'worktree (nothing from /verif): `patch.diff`, the demonstration (fails with the change, passes without it) and `meta.json`. Every change was confirmed by',
       '`selftest/confirm_seeded.py` in a fresh scratch worktree: the patch applies to HEAD, the demonstration passes without and fails with the change, the project still builds',
       '(Rust changes: all shipped triples still accepted) and the pinned Python suite still reports 188 passed (Python changes). The last column is the outcome of the quick checks',
       'pointed at the changed tree (`PI2_REPO=<scratch> ./check <id> quick`). None of these changes is ever committed to /repo.', '',
       '| id | breaks | kind | needs, to manifest | quick checks against it | pinned suite with the change |', '|---|---|---|---|---|---|']
for r in rows:
    out.append('| ' + ' | '.join(str(x).replace('|', '\\|') for x in r) + ' |')
out += ['', 'The sub-agents worked in six rounds (14, 12, 12, 9, 18 and 18 ideas, 82 kept after confirmation; from the second round on each agent was told which ideas had been used). Checks that initially missed a',
        'seeded change, and what was strengthened (every change is caught now; the "quick checks" column above was recorded at confirmation time):', '',
        '* S08 (kore-exists format string): the C19 notation monitor compared fully random argument tuples, which differ everywhere; it now renders a base tuple and, for every definition-relevant position, a variant that differs only there.',
        '* S09 (InstantiationOptimizer drops stray keys): the composer only instantiated keys that occur in the conclusion; 20% of the explicit instantiations now carry a key that does not occur.',
        '* S15 (e_fresh of ESubst mis-parenthesised): caught by C05 from the start, missed by C01; the stream generator gained a freshness probe (Generalization over theorems whose consequent contains pending substitutions, variable chosen regardless of the judgement).',
        '* S17 (Instantiate.__eq__ ignoring differing key sets): C07 only tried modus ponens on unrelated premises; the history generator now plants near-miss axiom pairs (A -> B and A\' with a partial vs fuller notation map, a changed constraint list, a changed symbol).',
        '* S20 (optimiser slot budget): not reachable with small modules; C02 gained a memory-pressure scenario (120-260 memoisable patterns next to 1-8 axioms) and the oracle "optimisation must not turn an accepted module into a refusal".',
        '* S25 (current configuration advanced before a late refusal): the E-trace driver stopped at the first refusal; it now goes on delivering events and requires a refused step to leave claims, proofs and current configuration unchanged.',
        '* S26 (negative polarity slip in SSubst): the mu-positivity probe only crossed the positive arms; it now crosses both polarities of inner metavariable and plug, and leads on (builds a theorem from the mu pattern) even when the reference machine refused it, so that C01 sees it too. R2 instances now use the constrained variables with the allowed polarity.',
        '* S28 (element substitution under a binder of the substituted variable): caught by C05, missed by C01; the stream generator gained a Quantifier probe (plugs that bind / shadow / mention x0 and x1).',
        '* S29 / S34 (SSubst freshness slips in the toolkit): generalisation probes in the history generator and in the composer (consequents full of pending substitutions, binders and constrained metavariables; same variable numbers for element and set variables).',
        '* S40 (s_fresh of an Exists whose variable number equals the set variable): no sound stream depended on a set-freshness judgement; the valid-axiom catalogue gained s_fresh-dependent schemas and the stream generator a constraint-boundary probe (Instantiate with plugs that sit exactly on, and one step beyond, each declared constraint).',
        '* S42 (symbol table reset between phases): C03 compared only declared sets; the serialiser\'s symbol() seam is now observed across the three files (same name same number, distinct names distinct numbers).',
        '* S46 (claim recorded before the functional-substitution check): the E-trace workload only used functional substitution values; non-functional heads are now generated (refusal or acceptance both allowed, a refusal must be atomic).',
        '* S48 (theory list cached across serialisations): no check used a module after serialising it; C02/C03 gained the growth history (an axiom, import or claim added after a serialisation, then a second serialisation).',
        '* S51 (decoded proofs cached by proof text): C15 databases now carry, in 30% of the runs, an earlier theorem with the very same proof text over other variables.',
        '* S55 (publish_proof consuming the caller\'s claims list): C08 built a fresh claims list per stack and never published; half of the runs now publish every result against the claim queue and half hand one list object to all stacks, as ProofExp.serialize does.',
        '* S56 (Kore conversion memo ignoring the per-axiom scope): the first variable of every generated rule was called X, so a stale entry was indistinguishable; names are permuted per rule, and a conversion that raises on unfaulted input is reported instead of being counted as a refusal.',
        '* S64 (GlobalScope.unambiguize iterating a set): no generated database declared #Variable variables; a third of the C18 Metamath targets now do, with axioms mentioning several of them.',
        '* S65 (substitution pushed under a notation\'s own binder): the composer gained a Quantifier probe (plugs that bind, shadow or mention x0/x1, plain and under complete / partial binder notations).',
        '* S68 (prop rules keyed by the database numbering): generated databases always stated the built-in rules over the first declared variables; other variables may now be declared before or between them.',
        '* S71 (constraint lists written sorted; caught by C14, missed by C04): generated constraint lists were always ascending; 35% are now shuffled.',
        '* S74 (freshness shortcut reading s_fresh; caught by C05, missed by C01): the freshness probe now also resolves the pending substitution in two steps (rename to a constrained metavariable, then replace it by a term mentioning x).',
        '* S78 (unused notation arguments dropped on instantiate): only the Kore notations have unused arguments with positional formats; the composer gained a Kore notation library (kore-and, -or, -not, -next, -implies, -rewrites, -equals, -in, -ceil, -floor, -dv, -kseq, binder notations).',
        '* S79 (nested brackets dropped): the C19 monitor now renders every notation nested in itself to the left and to the right. This also exposed a defect of the pinned tree (in-sort, D19).',
        '* revert of D9 slipped out of the C02 quick tier after the generator changes of round four (found by the full sensitivity run): the composer\'s probe now also resolves the pending substitution with a metavariable declared fresh for the variable.', '']
open(os.path.join(VERIF, 'seeded', 'README.md'), 'w').write('\n'.join(out))
print('\n'.join(out[:12]))
