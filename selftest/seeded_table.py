#!/usr/bin/env python3
"""Writes /verif/seeded/README.md from the meta.json files and the sensitivity result."""
import glob, json, os
VERIF = os.path.dirname(os.path.dirname(os.path.abspath(__file__)))
rows = []
for m in sorted(glob.glob(os.path.join(VERIF, 'seeded', '*', 'meta.json'))):
    d = json.load(open(m))
    checks = d.get('checks_against_change', {})
    rows.append((d['id'], d['breaks'], d['kind'], d['needs_to_manifest'],
                 ', '.join('%s: %s' % (k, 'caught (%s)' % ', '.join(v['signatures'][:2]) if v['caught'] else 'MISSED') for k, v in checks.items()),
                 d.get('pytest_with_change', 'n/a (Rust-only change: compiles, all shipped triples still accepted)')))
out = ['# Seeded breaking changes', '',
       'Each directory holds a change to TheBlueLizard/pi2 written by an independent sub-agent that was given only the text of a property and its own scratch',
       'worktree (nothing from /verif): `patch.diff`, the demonstration (fails with the change, passes without it) and `meta.json`. Every change was confirmed by',
       '`selftest/confirm_seeded.py` in a fresh scratch worktree: the patch applies to HEAD, the demonstration passes without and fails with the change, the project still builds',
       '(Rust changes: all shipped triples still accepted) and the pinned Python suite still reports 188 passed (Python changes). The last column is the outcome of the quick checks',
       'pointed at the changed tree (`PI2_REPO=<scratch> ./check <id> quick`). None of these changes is ever committed to /repo.', '',
       '| id | breaks | kind | needs, to manifest | quick checks against it | pinned suite with the change |', '|---|---|---|---|---|---|']
for r in rows:
    out.append('| ' + ' | '.join(str(x).replace('|', '\\|') for x in r) + ' |')
out += ['', 'Checks that initially missed a seeded change and what was strengthened:', '',
        '* S08 (kore-exists format string): the C19 notation monitor compared fully random argument tuples, which differ everywhere; it now renders a base tuple and, for every definition-relevant position, a variant that differs only there.',
        '* S09 (InstantiationOptimizer drops stray keys): the composer only instantiated keys that occur in the conclusion; 20% of the explicit instantiations now carry a key that does not occur.',
        '* S15 (e_fresh of ESubst mis-parenthesised): caught by C05 from the start, missed by C01; the stream generator gained a freshness probe (Generalization over theorems whose consequent contains pending substitutions, variable chosen regardless of the judgement).', '']
open(os.path.join(VERIF, 'seeded', 'README.md'), 'w').write('\n'.join(out))
print('\n'.join(out[:12]))
