"""C20 (E-trace): K execution traces become chained, checkable rewrite proofs.

A generated language definition (modules with imports, sorts, constructors, cells, a parametric
`inj`, `kseq`), rewrite rules with variables and a trace produced by an independent tiny
rewriter are delivered to the real K front end event by event -- through the builder API and,
via the stub Kore terms, through from_kore_definition + get_proof_hints -- with event-stream
faults (drop, duplicate, swap, corrupt substitution, wrong rule) against the sequential chain
model R5."""
import os
import sys

from .. import terms as T
from .. import refmachine as R
from .. import bridge as B
from ..core import Outcome
from ..paths import VERIF
from . import pipeline as _p

PROPERTY = 'C20'
ISOLATE = True
LEVEL = 'exploration'
TIERS = {'quick': {'runs': 1500, 'wall': 85, 'min_budget': 60}, 'thorough': {'runs': 150000, 'wall': 1500, 'min_budget': 200}}
RULE = ('one run = one generated signature (1-3 modules with imports, 1-3 sorts incl. hooked, 2-5 constructors of arity 0-2, optional cells, a parametric inj, kseq), 1-5 rewrite rules '
        'with 0-3 variables obtained by abstracting sub-terms of the running configuration, a ground start configuration and a trace of 1-8 rule applications from an independent '
        'rewriter, delivered (a) as rewrite_event calls on an ExecutionProofExp built through the builder API, (b) as rewrite_event calls with rules and substitutions converted from '
        'stub Kore terms (from_kore_definition, convert_substitutions) and (c) as an LLVMRewriteTrace (rule event, configuration, rule event, ...) through get_proof_hints + '
        'from_proof_hints, where half of the streams also lose, repeat or swap an item or lose a chunk (e.g. a configuration and the rule event after it); 45% of runs inject 1-2 event-stream faults (drop / duplicate / swap / corrupt a substitution value / wrong rule). '
        'Against R5, event by event: refusal exactly at the first index where the step does not start at the reached configuration; otherwise claims, advertised conclusions, current '
        'configuration and axioms as R5 says; at the end both serialisations are accepted by the checker and R1 and pass the C03 journal check. '
        'Non-trivial = trace of >= 2 events or a fault that fired; distinct = distinct event-log digests.')
TRANSITION_MEASURE = '(event kind incl. fault kind, chain state: matches / does not match the reached configuration, delivery path) tuples'
COMPONENTS = {'k/execution_proof_generation.py, k/kore_convertion/language_semantics.py, rewrite_steps.py, proofs/kore.py, proofs/definedness.py, proofs/substitution.py': 'real',
              'pyk.kore.syntax, pyk.kllvm.*': 'STUB (sim/stubs/pyk): frozen dataclasses with the field order the repository\'s match statements require',
              'K rewrite chain': 'model R5', 'rust/src/lib.rs': 'real (harness)', 'documented machine': 'model R1'}
ASSUMPTIONS = ['the Kore-conversion clause is checked against my reading of pyk\'s field order (the real pyk.kore is absent from the image)']
PROBES = ['trace_len_ge3', 'mismatching_step_refused', 'rule_with_variables', 'cell_symbol', 'parametric_inj', 'kseq_used', 'import_depth_ge2', 'kore_path', 'api_path',
          'serialised_and_accepted', 'fault_fired', 'claims_ge2', 'nonfunctional_substitution_refused', 'hints_path', 'hints_module_built']

STUBS = os.path.join(VERIF, 'sim', 'stubs')


def prepare():
    _p.prepare()


def warmup_imports():
    if STUBS not in sys.path:
        sys.path.insert(0, STUBS)
    for m in [m for m in list(sys.modules) if m == 'pyk' or m.startswith('pyk.')]:
        if not getattr(sys.modules[m], '__file__', '').startswith(STUBS):
            del sys.modules[m]
    import proof_generation.k.execution_proof_generation  # noqa


def warmup(ctx):
    if STUBS not in sys.path:
        sys.path.insert(0, STUBS)
    B.toolkit()
    for m in [m for m in list(sys.modules) if m == 'pyk' or m.startswith('pyk.')]:
        if not getattr(sys.modules[m], '__file__', '').startswith(STUBS):
            del sys.modules[m]
    import proof_generation.k.execution_proof_generation  # noqa
    import proof_generation.k.kore_convertion.rewrite_steps  # noqa
    ctx.harness


# ------------------------------------------------------------------ generation (toolkit-free)
# K terms: ['app', symbol, [args]] | ['var', name]
def kvars(t, acc=None):
    acc = [] if acc is None else acc
    if t[0] == 'var':
        if t[1] not in acc: acc.append(t[1])
    else:
        for a in t[2]: kvars(a, acc)
    return acc


def ksubst(t, s):
    if t[0] == 'var': return s.get(t[1], t)
    return ['app', t[1], [ksubst(a, s) for a in t[2]]]


def generate(rng, tier):
    nmods = rng.choice([1, 1, 2, 3])
    sorts = ['S%d' % i for i in range(rng.randint(1, 3))]
    hooked = [s for s in sorts if rng.random() < 0.2]
    consts = ['c%d' % i for i in range(rng.randint(2, 4))]
    funs = {('f%d' % i): rng.randint(1, 2) for i in range(rng.choice([0, 1, 1, 2, 3]))}
    cell = rng.random() < 0.4
    inj = rng.random() < 0.4
    kseq = rng.random() < 0.3
    symbols = []
    for c in consts: symbols.append({'name': c, 'arity': 0, 'sort': rng.choice(sorts), 'cell': False, 'params': 0, 'functional': rng.random() >= 0.12})
    for f, ar in funs.items(): symbols.append({'name': f, 'arity': ar, 'sort': rng.choice(sorts), 'cell': False, 'params': 0, 'functional': rng.random() >= 0.2})
    if cell: symbols.append({'name': 'kcell', 'arity': 1, 'sort': sorts[0], 'cell': True, 'params': 0})
    if inj: symbols.append({'name': 'inj', 'arity': 1, 'sort': None, 'cell': False, 'params': 2})
    if kseq: symbols.append({'name': 'kseq', 'arity': 2, 'sort': sorts[0], 'cell': False, 'params': 0}); symbols.append({'name': 'dotk', 'arity': 0, 'sort': sorts[0], 'cell': False, 'params': 0})
    # modules: symbols and sorts spread; module i imports a subset of earlier ones, last is main and reaches all
    mods = [{'name': 'M%d' % i, 'imports': [], 'sorts': [], 'symbols': []} for i in range(nmods)]
    for s in sorts: mods[0]['sorts'].append(s)          # sorts live in the base module
    for i in range(1, nmods):
        mods[i]['imports'] = sorted(set([i - 1] + [j for j in range(i - 1) if rng.random() < 0.4]))
    for sy in symbols:
        mods[rng.randrange(nmods)]['symbols'].append(sy['name'])
    symtab = {sy['name']: sy for sy in symbols}

    def ground(d):
        cands = [s for s in symbols if s['arity'] == 0 or d > 0]
        wide = [s for s in symbols if s['arity'] > 0 and not s['params'] and not s['cell']]
        if d > 0 and wide and rng.random() < 0.6:
            cands = wide          # terms with several proper sub-terms, so that rules bind several variables to different terms
        s = rng.choice(cands if d > 0 else [s for s in symbols if s['arity'] == 0])
        return ['app', s['name'], [ground(d - 1) for _ in range(s['arity'])]]

    cur = ground(rng.choice([0, 1, 2, 2, 3]))
    if cell:
        cur = ['app', 'kcell', [cur]]
    start = cur
    rules, events = [], []
    nsteps = rng.randint(1, 8)
    for _ in range(nsteps):
        if rules and rng.random() < 0.3:
            # re-use an applicable existing rule
            ok = [(i, m) for i, r in enumerate(rules) for m in [kmatch(r['lhs'], cur)] if m is not None]
            ok = [(i, m) for i, m in ok if rng.random() < 0.05 or not any(e['rule'] == i and e['subst'] == m for e in events)]
            if ok:
                i, m = rng.choice(ok)
                events.append({'rule': i, 'subst': m})
                cur = ksubst(rules[i]['rhs'], m)
                continue
        # abstract random sub-terms of cur into variables -> lhs; rhs = lhs with a sub-term rewritten
        names = rng.sample(['X', 'Y', 'Z'], 3)     # the first variable met is not always called X: scopes are per axiom
        s = {}

        def absd(t, top):
            if not top and len(s) < 3 and rng.random() < 0.4:
                for v, w in s.items():
                    if w == t: return ['var', v]
                v = names[len(s)]
                s[v] = t
                return ['var', v]
            return ['app', t[1], [absd(a, False) for a in t[2]]]
        lhs = absd(cur, True)
        # rhs: replace one position of lhs by a new term over the lhs variables
        def rew(t, p):
            if t[0] == 'var' or rng.random() < p:
                vs = kvars(lhs)
                if vs and rng.random() < 0.4: return ['var', rng.choice(vs)]
                return ground(1)
            if not t[2]: return ground(1)
            k = rng.randrange(len(t[2]))
            return ['app', t[1], [rew(a, p + 0.3) if j == k else a for j, a in enumerate(t[2])]]
        rhs = rew(lhs, 0.2)
        for _ in range(4):
            if rhs != lhs or rng.random() < 0.03:      # an identity rule only rarely (a repeated identical step: finding D16)
                break
            rhs = rew(lhs, 0.5)
        if cell and rhs[1] != 'kcell' and lhs[1] == 'kcell':
            rhs = ['app', 'kcell', [rhs]]
        rules.append({'lhs': lhs, 'rhs': rhs, 'sort': rng.choice(sorts), 'module': rng.randrange(nmods)})
        events.append({'rule': len(rules) - 1, 'subst': dict(s)})
        cur = ksubst(rhs, s)
    # rules are declared in a fixed order per module (ordinals follow declaration order over modules)
    faults = []
    if rng.random() < 0.45:
        for _ in range(rng.choice([1, 1, 2])):
            kind = rng.choice(['drop', 'dup', 'swap', 'corrupt', 'wrong_rule'])
            faults.append([kind, rng.randrange(max(1, len(events))), rng.getrandbits(16)])
    path = rng.choice(['api', 'api', 'kore', 'hints'])
    item_faults = []
    if path == 'hints' and rng.random() < 0.5:
        # the hint stream itself (rule event, configuration, rule event, configuration, ...) loses, repeats or reorders an item
        for _ in range(rng.choice([1, 1, 2])):
            item_faults.append([rng.choice(['drop_item', 'dup_item', 'swap_items', 'drop_chunk', 'drop_config_rule', 'drop_config_rule']), rng.randrange(64), rng.choice([2, 2, 3])])
    return {'mods': mods, 'sorts': sorts, 'hooked': hooked, 'symbols': symbols, 'rules': rules, 'start': start, 'events': events, 'faults': faults,
            'path': path, 'item_faults': item_faults, 'order': rng.choice([[False, True], [True, False], [False]])}


def kmatch(pat, t, s=None):
    s = {} if s is None else s
    if pat[0] == 'var':
        if pat[1] in s: return s if s[pat[1]] == t else None
        s[pat[1]] = t
        return s
    if t[0] != 'app' or t[1] != pat[1] or len(t[2]) != len(pat[2]): return None
    for a, b in zip(pat[2], t[2]):
        s = kmatch(a, b, s)
        if s is None: return None
    return s


def apply_faults(sc, out):
    import random
    ev = [dict(e) for e in sc['events']]
    for kind, pos, salt in sc['faults']:
        if not ev: break
        i = pos % len(ev)
        fired = True
        if kind == 'drop': del ev[i]
        elif kind == 'dup': ev.insert(i, dict(ev[i]))
        elif kind == 'swap':
            if i + 1 < len(ev) and ev[i] != ev[i + 1]: ev[i], ev[i + 1] = ev[i + 1], ev[i]
            else: fired = False
        elif kind == 'corrupt':
            if ev[i]['subst']:
                k = sorted(ev[i]['subst'])[salt % len(ev[i]['subst'])]
                consts = [s['name'] for s in sc['symbols'] if s['arity'] == 0]
                new = ['app', consts[salt % len(consts)], []]
                if ev[i]['subst'][k] == new: fired = False
                ev[i] = dict(ev[i], subst=dict(ev[i]['subst'], **{k: new}))
            else: fired = False
        elif kind == 'wrong_rule':
            j = salt % len(sc['rules'])
            if j == ev[i]['rule']: fired = False
            else:
                need = kvars(sc['rules'][j]['lhs']) + [v for v in kvars(sc['rules'][j]['rhs'])]
                consts = [s['name'] for s in sc['symbols'] if s['arity'] == 0]
                sub = {v: ev[i]['subst'].get(v, ['app', consts[0], []]) for v in need}
                ev[i] = {'rule': j, 'subst': sub}
        if fired:
            out.fault(kind); out.probe('fault_fired'); out.klass = 'fault-injecting'
    return ev


# ------------------------------------------------------------------ execution
def execute(sc, ctx):
    from proof_generation.k.execution_proof_generation import ExecutionProofExp
    from proof_generation.k.kore_convertion.language_semantics import LanguageSemantics, KSortVar
    from proof_generation.k.kore_convertion.rewrite_steps import RewriteStepExpression, get_proof_hints
    from proof_generation.pattern import MetaVar
    import proof_generation.proofs.kore as kl
    out = Outcome()
    events = apply_faults(sc, out)
    symtab = {s['name']: s for s in sc['symbols']}
    rules = sc['rules']
    if any(kvars(r['lhs']) for r in rules): out.probe('rule_with_variables')
    if any(s['cell'] for s in sc['symbols']): out.probe('cell_symbol')
    if 'inj' in symtab: out.probe('parametric_inj')
    if 'kseq' in symtab: out.probe('kseq_used')
    if any(any(sc['mods'][j]['imports'] for j in m['imports']) for m in sc['mods']): out.probe('import_depth_ge2')
    if len(events) >= 3: out.probe('trace_len_ge3')
    out.nontrivial = len(events) >= 2 or bool(out.faults)

    # ---- build the semantics (builder API, or stub Kore definition)
    rule_order = [i for mi in range(len(sc['mods'])) for i, r in enumerate(rules) if r['module'] == mi]
    ordinal_of = {ri: k for k, ri in enumerate(rule_order)}
    varnum = {}          # rule index -> {var name: metavar id}, numbered by first occurrence in (lhs, rhs)
    for ri, r in enumerate(rules):
        vs = kvars(r['lhs']); kvars(r['rhs'], vs)
        varnum[ri] = {v: i for i, v in enumerate(vs)}
    try:
        if sc['path'] == 'api':
            out.probe('api_path')
            sem = LanguageSemantics()
            kmods = []
            with sem as S:
                for mi, m in enumerate(sc['mods']):
                    km = S.module(m['name'])
                    kmods.append(km)
                    with km as mod:
                        for j in m['imports']:
                            mod.import_module(kmods[j])
                        for s in m['sorts']:
                            (mod.hooked_sort if s in sc['hooked'] else mod.sort)(s)
                        for sn in m['symbols']:
                            sy = symtab[sn]
                            if sy['params']:
                                fr, to = KSortVar('From'), KSortVar('To')
                                mod.symbol(sn, to, sort_params=(fr, to), input_sorts=(fr,), is_functional=True)
                            else:
                                srt = S.get_sort(sy['sort']) if mi else mod.get_sort(sy['sort'])
                                mod.symbol(sn, srt, input_sorts=tuple(S.get_sort(sc['sorts'][0]) for _ in range(sy['arity'])),
                                           is_functional=sy.get('functional', True), is_ctor=True, is_cell=sy['cell'])
                # rules need all symbols: declare them after all modules exist, in ordinal order
                for ri in rule_order:
                    r = rules[ri]
                    with kmods[r['module']] as mod:
                        mod.rewrite_rule(kl.kore_rewrites(sem.get_sort(r['sort']).aml_symbol, img(sem, r['lhs'], varnum[ri], sc), img(sem, r['rhs'], varnum[ri], sc)))
            get_rule = lambda ri: sem.get_axiom(ordinal_of[ri])
            conv_subst = lambda ri, s: {varnum[ri][v]: img(sem, t, {}, sc) for v, t in s.items() if v in varnum[ri]}
            start_cfg = img(sem, sc['start'], {}, sc)
        else:
            out.probe('hints_path' if sc['path'] == 'hints' else 'kore_path')
            import pyk.kore.syntax as K
            from proof_generation.llvm_proof_hint import LLVMRuleEvent, LLVMRewriteTrace
            sem = LanguageSemantics.from_kore_definition(kore_definition(K, sc, rule_order))
            get_rule = lambda ri: sem.get_axiom(ordinal_of[ri])
            conv_subst = lambda ri, s: sem.convert_substitutions({v: kore_term(K, t, sc) for v, t in s.items() if v in varnum[ri]}, ordinal_of[ri])
            start_cfg = sem.convert_pattern(kore_term(K, sc['start'], sc))
            # conversion clause: injective variable map per axiom scope; instantiate(convert(sigma)) == convert(sigma applied)
            for ri, r in enumerate(rules):
                scope = sem._cached_axiom_scopes[ordinal_of[ri]]
                ids = [m.name for m in scope._metavars.values()]
                if len(set(ids)) != len(ids):
                    out.violate('distinct Kore variables of one axiom map to distinct metavariables', 'C20|conversion|variables-collide', 'rule %d: %s' % (ri, scope._metavars))
            for e in events:
                ri = e['rule']
                lhs_i = B.py_expand(img_via_kore(sem, K, ksubst(rules[ri]['lhs'], e['subst']), sc))
                rule_lhs = kl.kore_rewrites.assert_matches(get_rule(ri).pattern.instantiate(conv_subst(ri, e['subst'])))[1]
                if kvars(ksubst(rules[ri]['lhs'], e['subst'])) == [] and B.py_expand(rule_lhs) != lhs_i:
                    out.violate('instantiating a converted rule with converted substitutions == converting the substituted rule', 'C20|conversion|instantiate-differs',
                                'rule %d subst %s: %s vs %s' % (ri, e['subst'], B.show_ext(B.py_expand(rule_lhs)), B.show_ext(lhs_i)))
                    return out
    except Exception as e:
        out.event('semantics refused', type(e).__name__, str(e)[:120])
        if not out.faults:
            # a generated definition, its rules and the substitutions of an unfaulted trace are all within the property's
            # quantifier: the front end has no reason to refuse to convert them
            import traceback
            tb = traceback.extract_tb(e.__traceback__)
            fn = next((f.name for f in reversed(tb) if 'proof_generation' in f.filename), '?')
            out.violate('a generated definition and the substitutions of its trace are converted', 'C20|conversion|raises|%s|%s' % (type(e).__name__, fn),
                        '%s path: %s: %s' % (sc['path'], type(e).__name__, str(e)[:300]))
        else:
            out.refused = True
        return out

    # ---- R5, the sequential chain model, stepped together with the real front end.  A refused event
    # leaves both unchanged (the caller may catch the refusal and go on delivering events).
    pe = ExecutionProofExp(sem, start_cfg)
    exp_claims = []
    cur = sc['start']
    accepted_steps = []
    if sc['path'] == 'hints':
        pe, exp_claims = deliver_hints(sc, events, sem, K, ordinal_of, symtab, out)
        events = []
        if pe is None:
            return out

    def state():
        return ([B.py_expand(c) for c in pe._claims], [B.py_expand(p.conc) for p in pe._proof_expressions], B.py_expand(pe.current_configuration))

    for k, e in enumerate(events):
        ri = e['rule']
        r = rules[ri]
        l, rr = ksubst(r['lhs'], e['subst']), ksubst(r['rhs'], e['subst'])
        nonfunctional = [v for v, t in e['subst'].items() if t[0] == 'app' and not symtab[t[1]].get('functional', True)]
        matches = (l == cur) and not nonfunctional
        either = (l == cur) and bool(nonfunctional)      # the property does not say whether a non-functional substitution value is refused
        st = 'match' if matches else ('nonfunctional-substitution' if l == cur else 'mismatch')
        out.transitions.add('%s/%s/%s' % ('rewrite_event', st, sc['path']))
        before = state()
        try:
            th = pe.rewrite_event(get_rule(ri), conv_subst(ri, e['subst']))
            raised = None
        except Exception as ex:
            raised = ex
        out.ops += 1
        out.event(k, ri, st, 'raised' if raised else 'ok', repr(e['subst'])[:80])
        if raised is not None:
            if matches:
                dup = (r['sort'], l, rr) in accepted_steps
                out.violate('a step that starts at the reached configuration is accepted',
                            'C20|chain|repeated-identical-step-refused' if dup else 'C20|chain|matching-step-refused|%s|%s' % (type(raised).__name__, _where(raised, e, sc)),
                            'event %d (rule %d, subst %s): %s' % (k, ri, e['subst'], str(raised)[:300]))
            else:
                out.probe('mismatching_step_refused' if l != cur else 'nonfunctional_substitution_refused')
            # whatever the reason, a refused step must leave the module where it was
            after = state()
            if after != before:
                what = 'claims' if after[0] != before[0] else 'proof-expressions' if after[1] != before[1] else 'current-configuration'
                out.violate('a refused step leaves the module unchanged: the next step must still start from the configuration the last accepted step reached',
                            'C20|chain|refused-step-changed-state|' + what, 'event %d (rule %d, subst %s) was refused (%s) but changed the %s' % (k, ri, e['subst'], type(raised).__name__, what))
                break
            continue
        if not matches and not either:
            out.violate('a step that does not start at the reached configuration is refused', 'C20|chain|mismatching-step-accepted',
                        'event %d (rule %d, subst %s): lhs %s but the chain is at %s' % (k, ri, e['subst'], l, cur))
            break
        accepted_steps.append((r['sort'], l, rr))
        cur = rr
        claim = kl.kore_rewrites(sem.get_sort(r['sort']).aml_symbol, img(sem, l, {}, sc), img(sem, rr, {}, sc))
        exp_claims.append(B.py_expand(claim))
        got_claims = [B.py_expand(c) for c in pe._claims]
        if got_claims != exp_claims:
            out.violate('the module claims exactly the instantiated rewrite of each step, in order', 'C20|chain|claims-differ',
                        'after event %d: expected %s got %s' % (k, [B.show_ext(c) for c in exp_claims], [B.show_ext(c) for c in got_claims]))
            break
        if B.py_expand(th.conc) != exp_claims[-1] or [B.py_expand(p.conc) for p in pe._proof_expressions] != exp_claims:
            out.violate('each proof expression advertises exactly its claim', 'C20|chain|advertised-conclusion-differs', 'event %d' % k)
            break
        if B.py_expand(pe.current_configuration) != B.py_expand(img(sem, rr, {}, sc)):
            out.violate('the next step must start from the configuration this one reached', 'C20|chain|current-configuration-differs',
                        'after event %d: %s' % (k, B.show_ext(B.py_expand(pe.current_configuration))))
            break
        if get_rule(ri).pattern not in pe._axioms:
            out.violate('the rule used is among the axioms', 'C20|chain|rule-not-an-axiom', 'event %d' % k)
            break
    if len(exp_claims) >= 2: out.probe('claims_ge2')
    if any(not v['signature'].startswith(('C20|chain|repeated-identical-step-refused', 'C20|chain|matching-step-refused')) for v in out.violations) or not exp_claims:
        return out
    # ---- the module is serialised and checked
    from ..simfs import SimFS
    fs = SimFS()
    axioms, claims = _p.declared_of(pe)
    for opt in sc['order']:
        base = '/sim/k_%s' % opt
        try:
            _p.serialise(pe, fs, base, 'binary', opt)
        except Exception as ex:
            out.violate('the generated module serialises', 'C20|serialise-raises|' + type(ex).__name__, str(ex)[:300])
            return out
        triple = fs.triple(base)
        ok, m, msg, at = R.verify(*triple)
        rw = ctx.harness.verify(*triple)
        for t in m.trace:
            out.transitions.add('m/%d/%s' % (t[0], t[1]))
        if not rw.accepted or not ok:
            out.violate('the serialised module is accepted by the checker', 'C20|rejected|' + _p.reason_class(msg), 'optimise=%s rust=%s panic=%r R1: %s at %s' % (opt, rw.accepted, rw.panic, msg, at))
            return out
        if not _p.journal_check(m, axioms, claims, B.SymMap(), out, 'optimise=%s' % opt):
            for v in out.violations: v['signature'] = v['signature'].replace('C03|', 'C20|journal|')
            return out
        out.probe('serialised_and_accepted')
    return out


def deliver_hints(sc, events, sem, K, ordinal_of, symtab, out):
    """Third delivery path: the events become an LLVMRewriteTrace (rule event, configuration, rule event, ...), with item
    faults, and go through get_proof_hints + ExecutionProofExp.from_proof_hints.  Returns (module, expected claims) or (None, _)."""
    import contextlib, io
    from proof_generation.k.execution_proof_generation import ExecutionProofExp
    from proof_generation.k.kore_convertion.rewrite_steps import get_proof_hints
    from proof_generation.llvm_proof_hint import LLVMRuleEvent, LLVMRewriteTrace
    import proof_generation.proofs.kore as kl
    rules = sc['rules']
    items = []
    for k in range(len(events)):
        items += [('rule', k), ('config', k)]
    for kind, pos, *rest in sc.get('item_faults', []):
        if not items: break
        i = pos % len(items)
        fired = True
        if kind == 'drop_item': del items[i]
        elif kind == 'drop_config_rule':                # a configuration and the rule event after it are lost: the stream then pairs a rule with a later configuration
            i = (2 * (pos % max(1, len(items) // 2)) + 1) % len(items)
            del items[i:i + 2]
        elif kind == 'drop_chunk':                      # a lost buffer: two or three consecutive items (e.g. a configuration and the next rule event)
            del items[i:i + (rest[0] if rest else 2)]
        elif kind == 'dup_item': items.insert(i, items[i])
        elif i + 1 < len(items): items[i], items[i + 1] = items[i + 1], items[i]
        else: fired = False
        if fired:
            out.fault(kind); out.probe('fault_fired'); out.klass = 'fault-injecting'

    def obj(it):
        e = events[it[1]]
        r = rules[e['rule']]
        if it[0] == 'rule':
            vs = kvars(r['lhs']); kvars(r['rhs'], vs)
            return LLVMRuleEvent(ordinal_of[e['rule']], tuple((v, kore_term(K, t, sc)) for v, t in e['subst'].items() if v in vs))
        return kore_term(K, ksubst(r['rhs'], e['subst']), sc)
    trace = LLVMRewriteTrace(pre_trace=(), initial_config=kore_term(K, sc['start'], sc), trace=tuple(obj(it) for it in items))
    # what the reader of the stream is documented to do: a rule event immediately followed by a configuration is one step
    steps = [events[a[1]] for a, b in zip(items, items[1:]) if a[0] == 'rule' and b[0] == 'config']
    cur = sc['start']
    verdict = 'accept'
    exp_claims, seen = [], []
    for e in steps:
        r = rules[e['rule']]
        l, rr = ksubst(r['lhs'], e['subst']), ksubst(r['rhs'], e['subst'])
        nonfunctional = [v for v, t in e['subst'].items() if t[0] == 'app' and not symtab[t[1]].get('functional', True)]
        if l != cur:
            verdict = 'refuse'
            break
        if nonfunctional:
            verdict = 'either'
            break
        if (r['sort'], l, rr) in seen and verdict == 'accept':
            verdict = 'accept-repeated'
        seen.append((r['sort'], l, rr))
        exp_claims.append(B.py_expand(kl.kore_rewrites(sem.get_sort(r['sort']).aml_symbol, img(sem, l, {}, sc), img(sem, rr, {}, sc))))
        cur = rr
    out.transitions.add('from_proof_hints/%s/%d' % (verdict, min(len(steps), 3)))
    out.ops += len(steps)
    try:
        with contextlib.redirect_stdout(io.StringIO()):
            pe = ExecutionProofExp.from_proof_hints(get_proof_hints(trace, sem), sem)
        raised = None
    except Exception as ex:
        raised = ex
    out.event('hints', len(items), len(steps), verdict, type(raised).__name__ if raised else 'ok')
    if raised is not None:
        if verdict == 'accept':
            out.violate('a hint stream whose steps chain is accepted', 'C20|hints|chaining-stream-refused|' + type(raised).__name__, '%d steps: %s' % (len(steps), str(raised)[:300]))
        elif verdict == 'accept-repeated':
            out.violate('a step that starts at the reached configuration is accepted', 'C20|chain|repeated-identical-step-refused', '%d steps (hint stream): %s' % (len(steps), str(raised)[:200]))
        else:
            out.probe('mismatching_step_refused' if verdict == 'refuse' else 'nonfunctional_substitution_refused')
        return None, None
    if verdict == 'refuse':
        out.violate('a step that does not start at the reached configuration is refused', 'C20|chain|mismatching-step-accepted',
                    'hint stream of %d items, %d steps: accepted although a step does not start where the previous one ended' % (len(items), len(steps)))
        return None, None
    if verdict == 'either':
        return None, None
    got = [B.py_expand(c) for c in pe._claims]
    if got != exp_claims:
        out.violate('the module claims exactly the instantiated rewrite of each step, in order', 'C20|chain|claims-differ',
                    'hint stream: expected %s got %s' % ([B.show_ext(c) for c in exp_claims], [B.show_ext(c) for c in got]))
        return None, None
    if [B.py_expand(t.conc) for t in pe._proof_expressions] != exp_claims:
        out.violate('each proof expression advertises exactly its claim', 'C20|chain|advertised-conclusion-differs', 'hint stream')
        return None, None
    if steps and B.py_expand(pe.current_configuration) != B.py_expand(img(sem, cur, {}, sc)):
        out.violate('the next step must start from the configuration this one reached', 'C20|chain|current-configuration-differs', 'hint stream')
        return None, None
    out.probe('hints_module_built')
    return pe, exp_claims


def _where(exc, e, sc):
    import traceback
    tb = traceback.extract_tb(exc.__traceback__)
    fn = tb[-1].name if tb else '?'
    if fn == 'collect_functional_axioms':
        heads = sorted(set(t[1] for t in e['subst'].values() if t[0] == 'app'))
        if 'kseq' in heads:
            return 'collect_functional_axioms|kseq-valued-substitution'
    return fn


def build_pe(sc):
    """Builds the semantics through the builder API and drives rewrite_event over the (unfaulted)
    events; stops at the first refusal.  Used by C18 (K modules as serialisation targets)."""
    from proof_generation.k.execution_proof_generation import ExecutionProofExp
    from proof_generation.k.kore_convertion.language_semantics import LanguageSemantics, KSortVar
    import proof_generation.proofs.kore as kl
    symtab = {s['name']: s for s in sc['symbols']}
    rules = sc['rules']
    rule_order = [i for mi in range(len(sc['mods'])) for i, r in enumerate(rules) if r['module'] == mi]
    ordinal_of = {ri: k for k, ri in enumerate(rule_order)}
    varnum = {}
    for ri, r in enumerate(rules):
        vs = kvars(r['lhs']); kvars(r['rhs'], vs)
        varnum[ri] = {v: i for i, v in enumerate(vs)}
    sem = LanguageSemantics()
    kmods = []
    with sem as S:
        for mi, m in enumerate(sc['mods']):
            km = S.module(m['name'])
            kmods.append(km)
            with km as mod:
                for j in m['imports']:
                    mod.import_module(kmods[j])
                for s_ in m['sorts']:
                    (mod.hooked_sort if s_ in sc['hooked'] else mod.sort)(s_)
                for sn in m['symbols']:
                    sy = symtab[sn]
                    if sy['params']:
                        fr, to = KSortVar('From'), KSortVar('To')
                        mod.symbol(sn, to, sort_params=(fr, to), input_sorts=(fr,), is_functional=True)
                    else:
                        srt = S.get_sort(sy['sort']) if mi else mod.get_sort(sy['sort'])
                        mod.symbol(sn, srt, input_sorts=tuple(S.get_sort(sc['sorts'][0]) for _ in range(sy['arity'])),
                                   is_functional=sy.get('functional', True), is_ctor=True, is_cell=sy['cell'])
        for ri in rule_order:
            r = rules[ri]
            with kmods[r['module']] as mod:
                mod.rewrite_rule(kl.kore_rewrites(sem.get_sort(r['sort']).aml_symbol, img(sem, r['lhs'], varnum[ri], sc), img(sem, r['rhs'], varnum[ri], sc)))
    pe = ExecutionProofExp(sem, img(sem, sc['start'], {}, sc))
    for e in sc['events']:
        ri = e['rule']
        try:
            pe.rewrite_event(sem.get_axiom(ordinal_of[ri]), {varnum[ri][v]: img(sem, t, {}, sc) for v, t in e['subst'].items() if v in varnum[ri]})
        except Exception:
            break
    return pe


def img(sem, t, varnum, sc):
    """K term -> toolkit pattern through the symbols' own notations (variables -> metavariables)."""
    from proof_generation.pattern import MetaVar
    if t[0] == 'var':
        return MetaVar(varnum[t[1]])
    ks = sem.get_symbol(t[1])
    args = [img(sem, a, varnum, sc) for a in t[2]]
    if ks.sort_params:
        s0 = sem.get_sort(sc['sorts'][0]).aml_symbol
        return ks.app(s0, s0, *args)
    return ks.app(*args)


def img_via_kore(sem, K, t, sc):
    return sem.convert_pattern(kore_term(K, t, sc))


def kore_term(K, t, sc):
    srt = K.SortApp(sc['sorts'][0])
    if t[0] == 'var':
        return K.EVar(t[1], srt)
    symtab = {s['name']: s for s in sc['symbols']}
    sy = symtab[t[1]]
    sorts = (srt, srt) if sy['params'] else ()
    return K.App(t[1], sorts, tuple(kore_term(K, a, sc) for a in t[2]))


def kore_definition(K, sc, rule_order):
    symtab = {s['name']: s for s in sc['symbols']}
    mods = []
    s0 = K.SortApp(sc['sorts'][0])
    # rules must come after every symbol exists: they are put in their module, modules are emitted in order,
    # and a rule's module imports (transitively) everything below it; symbols of later modules are not
    # visible, so rules live in the last module for the Kore path (ordinals still follow rule_order).
    for mi, m in enumerate(sc['mods']):
        sent = [K.Import(sc['mods'][j]['name']) for j in m['imports']]
        for s in m['sorts']:
            sent.append(K.SortDecl(s, (), (), s in sc['hooked']))
        for sn in m['symbols']:
            sy = symtab[sn]
            if sy['params']:
                fr, to = K.SortVar('From'), K.SortVar('To')
                sent.append(K.SymbolDecl(K.Symbol(sn, (fr, to)), (fr,), to, (K.App('functional'),)))
            else:
                attrs = ((K.App('functional'),) if sy.get('functional', True) else ()) + (K.App('constructor'),) + ((K.App('cell'),) if sy['cell'] else ())
                sent.append(K.SymbolDecl(K.Symbol(sn, ()), tuple(s0 for _ in range(sy['arity'])), K.SortApp(sy['sort']), attrs))
        if mi == len(sc['mods']) - 1:
            for ri in rule_order:
                r = sc['rules'][ri]
                rs = K.SortApp(r['sort'])
                sent.append(K.Axiom((), K.Rewrites(rs, K.And(rs, (kore_term(K, r['lhs'], sc), K.Top(rs))), K.And(rs, (kore_term(K, r['rhs'], sc), K.Top(rs)))), ()))
        mods.append(K.Module(m['name'], tuple(sent)))
    return K.Definition(tuple(mods))


def shrink(sc):
    if sc['faults']:
        for i in range(len(sc['faults'])):
            yield dict(sc, faults=sc['faults'][:i] + sc['faults'][i + 1:])
    ev = sc['events']
    for n in range(len(ev) - 1, 0, -1):
        yield dict(sc, events=ev[:n])
    if len(sc['order']) > 1:
        for o in sc['order']:
            yield dict(sc, order=[o])
    if sc['path'] == 'kore':
        yield dict(sc, path='api')
    if sc['path'] == 'hints':
        if sc.get('item_faults'):
            yield dict(sc, item_faults=[])
            for i in range(len(sc['item_faults'])):
                yield dict(sc, item_faults=sc['item_faults'][:i] + sc['item_faults'][i + 1:])
        yield dict(sc, path='kore', item_faults=[])


def describe(sc):
    def ks(t):
        return t[1] if t[0] == 'var' else '%s(%s)' % (t[1], ', '.join(ks(a) for a in t[2]))
    return {'modules': sc['mods'], 'rules': ['%s => %s : %s (module %d)' % (ks(r['lhs']), ks(r['rhs']), r['sort'], r['module']) for r in sc['rules']],
            'start': ks(sc['start']), 'events': ['rule %d {%s}' % (e['rule'], ', '.join('%s:=%s' % (v, ks(t)) for v, t in e['subst'].items())) for e in sc['events']],
            'faults': sc['faults'], 'path': sc['path']}
