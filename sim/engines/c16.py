"""C16 (E-process): generated Metamath databases with a valid random derivation -> the real
translator (fresh interpreter, seeded hash seed, several compression layouts) -> real checker
and R1; claim/axioms compared with the structural image of the database."""
import random

from .. import mm_ref as M
from .. import terms as T
from .. import refmachine as R
from .. import bridge as B
from ..core import Outcome

PROPERTY = 'C16'
ISOLATE = False
LEVEL = 'exploration'
TIERS = {'quick': {'runs': 700, 'wall': 85, 'min_budget': 60}, 'thorough': {'runs': 40000, 'wall': 1500, 'min_budget': 200}}
RULE = ('one run = one generated database in the supported fragment (constants, constructors of arity 0-3 whose argument order differs from the $f order, declared notations, '
        'axioms, rules with 1-3 essential hypotheses, proof-rule-prop-1/-prop-2/-mp, target with 0-3 metavariables) and a random derivation of the target grown top-down '
        '(axiom by anti-unification, rule whose conclusion generalises the node, modus ponens with a random minor premise, prop-1 instance), re-verified by R4, encoded in 3 '
        'compression layouts (no Z / Z on every repeated sub-proof / Z on random repeated sub-proofs, label list shuffled); each layout is translated by the real toolkit in fresh '
        'interpreters under 2 seeded hash seeds (plus the real translate.main on real files for a sample); exit without error, claim == image of the target, gamma == images of the '
        'exported axioms and rules in order, checker and R1 accept, for every layout and seed (the decoded claim and axioms are compared, not the bytes: the optimiser legitimately places Save/Load differently per layout). Non-trivial = derivation with >= 1 rule/mp step; '
        'distinct = distinct event-log digests.')
TRANSITION_MEASURE = '(proof node kinds used, #essential hypotheses, layout, Z reuse of proof/pattern step) tuples'
COMPONENTS = {'metamath/translate.py (exec_proof), converter, parser, ProofExp.serialize(optimize)': 'real, fresh interpreter per hash seed', 'translate.main on real files': 'real, sampled',
              'Metamath verifier + term->pattern image': 'model R4', 'rust/src/lib.rs': 'real (harness)', 'documented machine': 'model R1'}
ASSUMPTIONS = ['databases follow the label convention <var>-is-pattern that the converter hard-codes for floating hypotheses',
               'order of published axioms = declaration order of the exported axioms and rules']
PROBES = ['rule_with_essentials_applied', 'mp_applied', 'z_reuse_of_proof_step', 'z_reuse_of_pattern_step', 'notation_used', 'target_mvars_ge2', 'real_main_run', 'ctor_arity_ge2', 'noncanonical_variable_roles', 'shipped_benchmark']


def prepare():
    from .. import rust
    rust.build_harness()
    rust.gc_builds()


SHIPPED = [('impreflex-compressed-goal.mm', 'goal'), ('impreflex-compressed.mm', 'imp-reflexivity'), ('impreflex.mm', 'imp-reflexivity')]
SHIPPED_SLOW = [('transfer-simple-compressed-goal.mm', 'goal'), ('transfer-simple-goal.mm', 'goal')]


def generate(rng, tier):
    r = rng.random()
    if r < 0.03 or (tier == 'thorough' and r < 0.031):
        name, target = rng.choice(SHIPPED + (SHIPPED_SLOW if tier == 'thorough' and r > 0.03 else []))
        return {'shipped_mm': name, 'target': target, 'hashseeds': sorted(rng.sample(range(16), 2))}
    return {'gen_seed': rng.getrandbits(40), 'hashseeds': sorted(rng.sample(range(16), 2)), 'real_main': rng.random() < 0.08}


def image(db, gen_notations, t):
    """Independent term -> pattern map for the generated fragment."""
    if t[0] == 'v':
        return T.mv([v for _, v in db.floats].index(t[1]))
    if t[0] == '\\imp':
        return T.imp(image(db, gen_notations, t[1]), image(db, gen_notations, t[2]))
    if t[0] in gen_notations:
        vs, rhs = gen_notations[t[0]]
        return image(db, gen_notations, M.tsubst(rhs, {v: a for v, a in zip(vs, t[1:])}))
    p = ('y', t[0])
    for a in t[1:]:
        p = T.app(p, image(db, gen_notations, a))
    return p


def build(sc):
    rng = random.Random(sc['gen_seed'])
    canonical = rng.random() >= 0.15
    g = M.Gen(rng, canonical=canonical)
    db = g.db
    nt = rng.choice([0, 1, 2, 2, 3])
    tvs = rng.sample(db.vars, min(nt, len(db.vars)))
    target = g.term(rng.randint(1, 3), vs_only=tvs or None, ground=not tvs)
    if target[0] == 'v':
        target = ('\\imp', target, g.term(1, vs_only=tvs or None, ground=not tvs))
    steps = g.prove(target, rng.choice([0, 1, 2, 2, 3]))
    if M.run_steps(db, steps) != [('|-', target)]:
        raise AssertionError('generator produced an invalid derivation')
    db.target = ('goal', target, None)
    layouts = []
    for z in ('none', 'all', 'random'):
        labels, letters = M.compress(db, target, steps, rng, z)
        M.verify_compressed(db, target, labels, letters)
        layouts.append({'z': z, 'text': db.text(['('] + labels + [')', letters], layout_rng=random.Random(rng.getrandbits(30)) if rng.random() < 0.4 else None),
                        'letters': letters})
    exported = []
    for l in db.order:
        if l in db.axioms and not l.startswith('proof-rule-'):
            exported.append(image(db, g.notations, db.axioms[l]))
        elif l in db.rules and l != 'proof-rule-mp':
            es, c = db.rules[l]
            p = image(db, g.notations, c)
            for _, et in reversed(es):
                p = T.imp(image(db, g.notations, et), p)
            exported.append(p)
    dedup = []
    for a in exported:
        if a not in dedup:
            dedup.append(a)
    used = set(steps)
    fl = {l for l, _ in db.floats}
    zpat = any('Z' in lay['letters'] for lay in layouts) and _z_after_syntax(db, target, layouts)
    info = {'rules': sorted(l for l in used if l.startswith('rule-')), 'mp': 'proof-rule-mp' in used, 'steps': len(steps),
            'essentials': max([len(db.rules[l][0]) for l in used if l in db.rules and l != 'proof-rule-mp'] or [0]),
            'notation': any(n in str(target) or any(n in str(db.axioms.get(l, '')) for l in used) for n in g.notations),
            'canonical': canonical, 'zpat': zpat, 'tmv': len(M.tvars(target)), 'ctor2': any(a >= 2 for c, a in g.ctors.items() if c.startswith('\\f'))}
    return layouts, image(db, g.notations, target), dedup, info


def _z_after_syntax(db, target, layouts):
    # is some Z mark placed right after a syntax (pattern-construction) step?
    mand = [l for l, _ in db.mandatory_floats([target])]
    for lay in layouts:
        toks = lay['text'].split('$=')[1].split('$.')[0].split()
        labels, letters = M.split_compressed(toks)
        table = mand + labels
        items = M.decode_letters(letters)
        for a, b in zip(items, items[1:]):
            if b == 'Z' and a != 'Z' and a <= len(table) and (table[a - 1] in db.syntax):
                return True
    return False


def execute_shipped(sc, ctx):
    """A shipped benchmark: translation must succeed, the checker and R1 must accept, and the files
    must not depend on the hash seed (the structural image is not computed for these databases)."""
    import os
    from ..paths import REPO
    out = Outcome()
    out.nontrivial = True
    out.probe('shipped_benchmark')
    text = open(os.path.join(REPO, 'generation', 'mm-benchmarks', sc['shipped_mm'])).read()
    seen = {}
    for h in sc['hashseeds']:
        out.fault('hashseed')
        r = ctx.ask(h, {'op': 'serialise', 'target': {'kind': 'mm', 'text': text, 'target': sc['target']}, 'formats': ['binary'], 'optimize': True, 'history': [], 'timeout': 600 if os.environ.get('VERIF_TIER') == 'thorough' else 110})
        out.ops += 1
        if 'error' in r:
            out.violate('a shipped benchmark translates', 'C16|shipped|translate-raises|' + r['error'], '%s hashseed=%d: %s' % (sc['shipped_mm'], h, r.get('trace', r.get('message', ''))[-600:]))
            return out
        triple = tuple(bytes.fromhex(r['files']['binary'][s]) for s in ('gamma', 'claim', 'proof'))
        out.event(sc['shipped_mm'], h, [len(x) for x in triple])
        seen[h] = triple
        ok, m, msg, at = R.verify(*triple)
        rw = ctx.harness.verify(*triple)
        if not ok or not rw.accepted:
            out.violate('the translation of a shipped benchmark is accepted by the checker', 'C16|shipped|rejected', '%s: rust=%s R1=%s %s' % (sc['shipped_mm'], rw.accepted, ok, msg))
            return out
    if len(set(seen.values())) > 1:
        out.violate('the translation of a shipped benchmark does not depend on the hash seed', 'C16|shipped|hashseed-dependent', sc['shipped_mm'])
    return out


def execute(sc, ctx):
    if 'shipped_mm' in sc:
        return execute_shipped(sc, ctx)
    out = Outcome()
    if 'layouts' in sc:
        layouts, claim_img, gamma_img, info = sc['layouts'], T.tup(sc['claim_img']), [T.tup(a) for a in sc['gamma_img']], sc['info']
    else:
        layouts, claim_img, gamma_img, info = build(sc)
    out.explicit = {'layouts': layouts, 'claim_img': claim_img, 'gamma_img': gamma_img, 'info': info, 'hashseeds': sc['hashseeds'], 'real_main': sc.get('real_main', False)}
    out.nontrivial = bool(info['rules']) or info['mp']
    CANON[0] = info.get('canonical', True)
    if info['rules']: out.probe('rule_with_essentials_applied')
    if info['mp']: out.probe('mp_applied')
    if info['notation']: out.probe('notation_used')
    if info['tmv'] >= 2: out.probe('target_mvars_ge2')
    if info['ctor2']: out.probe('ctor_arity_ge2')
    if info.get('zpat'): out.probe('z_reuse_of_pattern_step')
    if not info.get('canonical', True): out.probe('noncanonical_variable_roles')
    seen = {}
    for lay in layouts:
        if 'Z' in lay['letters']:
            out.probe('z_reuse_of_proof_step')
        out.transitions.add('%s/%d/%s/%s' % (','.join(sorted(set(x.split('-')[0] for x in info['rules']))) or '-', info['essentials'], lay['z'], info['mp']))
        for h in sc['hashseeds']:
            out.fault('hashseed'); out.fault('layout')
            r = ctx.ask(h, {'op': 'serialise', 'target': {'kind': 'mm', 'text': lay['text'], 'target': 'goal'}, 'formats': ['binary'], 'optimize': True, 'history': []})
            out.ops += 1
            if 'error' in r:
                out.event(lay['z'], h, 'error', r['error'])
                sig = 'C16|translate-raises|%s|%s' % (r['error'], where(r))
                if not info.get('canonical', True):
                    sig = 'C16|noncanonical-builtin-roles|' + r['error']
                out.violate('translation of a valid proof in the supported fragment succeeds', sig,
                            'layout=%s hashseed=%d: %s' % (lay['z'], h, r.get('trace', r.get('message', ''))[-900:]))
                return out
            f = r['files']['binary']
            triple = tuple(bytes.fromhex(f[s]) for s in ('gamma', 'claim', 'proof'))
            out.event(lay['z'], h, [len(x) for x in triple])
            seen[(lay['z'], h)] = triple
            if not check_triple(triple, claim_img, gamma_img, ctx, out, 'layout=%s hashseed=%d' % (lay['z'], h)):
                return out
    if sc.get('real_main'):
        lay = layouts[-1]
        r = ctx.ask(sc['hashseeds'][0], {'op': 'real_main', 'text': lay['text'], 'target': 'goal'})
        out.probe('real_main_run')
        if 'error' in r:
            out.violate('translate.main succeeds on a valid proof', 'C16|main-raises|' + r['error'], r.get('trace', '')[-900:])
        else:
            triple = tuple(bytes.fromhex(r['files'][s]) for s in ('gamma', 'claim', 'proof'))
            if triple != seen[(lay['z'], sc['hashseeds'][0])]:
                out.violate('translate.main writes the same files as one serialisation of the same skeleton', 'C16|main-differs', 'sizes %s' % [len(x) for x in triple])
    return out


CANON = [True]


def where(r):
    tr = r.get('trace', '')
    for key in ('exec_proof', 'converter.py', 'serialize', 'stateful_interpreter', 'basic_interpreter'):
        if key in tr:
            return key
    return 'other'


def check_triple(triple, claim_img, gamma_img, ctx, out, label):
    ok, m, msg, at = R.verify(*triple)
    rw = ctx.harness.verify(*triple)
    for t in m.trace:
        out.transitions.add('%d/%s' % (t[0], t[1]))
    if not rw.accepted or not ok:
        out.violate('the emitted proof is accepted by the checker', ('C16|rejected|' if CANON[0] else 'C16|noncanonical-builtin-roles|rejected|') + ''.join(c for c in msg if not c.isdigit())[:50],
                    '%s: rust=%s panic=%r R1=%s %s at=%s' % (label, rw.accepted, rw.panic, ok, msg, at))
        return False
    sm = B.SymMap()
    pub = []
    for a in m.journal['axioms']:
        if a not in pub: pub.append(a)
    claims = list(reversed(m.journal['claims']))
    if len(claims) != 1 or not B.unify(claim_img, claims[0], sm):
        out.violate('the published claim is the structural image of the target statement', 'C16|claim-image' if CANON[0] else 'C16|noncanonical-builtin-roles|claim-image',
                    '%s: expected %s published %s' % (label, B.show_ext(claim_img), [T.show(c) for c in claims]))
        return False
    if len(pub) != len(gamma_img) or not all(B.unify(a, b, sm) for a, b in zip(gamma_img, pub)):
        out.violate('the published axioms are the images of the exported axioms and rules', 'C16|gamma-image',
                    '%s: expected %s published %s' % (label, [B.show_ext(a) for a in gamma_img], [T.show(a) for a in pub]))
        return False
    return True


def shrink(sc):
    if 'layouts' not in sc:
        return
    if len(sc['layouts']) > 1:
        for i in range(len(sc['layouts'])):
            yield dict(sc, layouts=[sc['layouts'][i]])
    if len(sc['hashseeds']) > 1:
        for h in sc['hashseeds']:
            yield dict(sc, hashseeds=[h])
    if sc.get('real_main'):
        yield dict(sc, real_main=False)


def describe(sc):
    d = dict(sc)
    if 'layouts' in d:
        d['layouts'] = [dict(l, text=l['text'].split('\n')) for l in d['layouts']]
    return d
