"""C14: feeding the bytes of each phase of a serialised module through the deserialiser into a
fresh interpreter replays the same calls and ends in the same state; truncated / unknown input
is an error (fault enumeration: truncation at every byte, overwrite by every undefined byte
value incl. 0 on short streams)."""
import io

from .pipeline import *  # noqa
from . import pipeline as _p
from .. import compose as C
from .. import terms as T
from .. import refmachine as R
from .. import bridge as B
from ..core import Outcome

PROPERTY = 'C14'
LEVEL = 'fault_enumeration'
TIERS = {'quick': {'runs': 800, 'wall': 85, 'min_budget': 60}, 'thorough': {'runs': 150000, 'wall': 1200, 'min_budget': 200}}
RULE = ('one run = one proof module (C02 composer or shipped) executed phase by phase on a recording SerializingInterpreter (optimise off/on); the bytes of each phase are fed '
        'through deserialize_instructions into a fresh recording interpreter moved through the same phases; call sequences (methods, scalar operands, term operands modulo symbol '
        'renaming) and final stack/memory/claims per phase must be equal. Faults: every truncation offset of every phase stream; every overwrite by an undefined byte value '
        '(0, 1, 31..136, 138..255 sampled, 0 always) on streams <= 64 bytes, sampled beyond: where R1 says the stream is not a well-formed instruction sequence the deserialiser '
        'must raise. Non-trivial = module with a rule/library step or shipped; distinct = distinct event-log digests.')
PROBES = ['esubst_roundtrip', 'ssubst_roundtrip', 'constrained_metavar_roundtrip', 'quantifier_roundtrip', 'generalization_roundtrip', 'publish_gamma_roundtrip',
          'publish_claim_roundtrip', 'publish_proof_roundtrip', 'save_load_roundtrip', 'truncation_inside_operand', 'zero_byte_injected', 'deserialiser_raised_on_malformed']
ASSUMPTIONS = ['a faulted stream whose cut falls on an instruction boundary is a valid shorter program: only the "must raise when malformed" clause is checked under faults']
COMPONENTS = dict(_p.COMPONENTS, **{'deserialize.py': 'real', 'PrettyPrintingInterpreter (receiving side)': 'real'})

LOGGED = ['evar', 'svar', 'symbol', 'metavar', 'implies', 'app', 'exists', 'mu', 'esubst', 'ssubst', 'prop1', 'prop2', 'prop3', 'modus_ponens',
          'exists_quantifier', 'exists_generalization', 'instantiate', 'instantiate_pattern', 'pop', 'save', 'load', 'publish_proof', 'publish_axiom', 'publish_claim']


def recording(cls):
    """Subclass of an interpreter class that logs every machine-level call it receives."""
    ns = {}

    def mk(name):
        def f(self, *a, **kw):
            self.log.append((name, a))
            return getattr(super(Rec, self), name)(*a, **kw)
        return f
    Rec = type('Rec' + cls.__name__, (cls,), {})
    for n in LOGGED:
        setattr(Rec, n, mk(n))
    return Rec


def norm_arg(x):
    from proof_generation.pattern import Pattern
    from proof_generation.proved import Proved
    if isinstance(x, Proved): return ('T', B.py_expand(x.conclusion))
    if isinstance(x, Pattern): return ('P', B.py_expand(x))
    if isinstance(x, dict): return ('D', tuple((k, B.py_expand(v)) for k, v in x.items()))
    if isinstance(x, tuple): return ('L', tuple(getattr(y, 'name', y) for y in x))
    return ('S', x)


def same_call(a, b, sm):
    """a: serialiser side (symbol names), b: deserialiser side (symbols named str(id))."""
    if a[0] != b[0]: return False
    name = a[0]
    if name == 'symbol':
        return b[1][0].isdigit() and sm.bind(a[1][0], int(b[1][0]))
    aa, bb = a[1], b[1]
    if name in ('save', 'load'): aa, bb = aa[1:], bb[1:]
    if len(aa) != len(bb): return False
    for x, y in zip(aa, bb):
        nx, ny = norm_arg(x), norm_arg(y)
        if nx[0] != ny[0]: return False
        if nx[0] in ('T', 'P'):
            if not B.unify(nx[1], B.rename_syms(ny[1], lambda s: int(s) if isinstance(s, str) and s.isdigit() else s), sm): return False
        elif nx[0] == 'D':
            if [k for k, _ in nx[1]] != [k for k, _ in ny[1]]: return False
            for (_, u), (_, v) in zip(nx[1], ny[1]):
                if not B.unify(u, B.rename_syms(v, lambda s: int(s) if isinstance(s, str) and s.isdigit() else s), sm): return False
        elif nx != ny:
            return False
    return True


def state_of(interp):
    from proof_generation.proved import Proved
    def ent(x):
        return ('T', B.py_expand(x.conclusion)) if isinstance(x, Proved) else ('P', B.py_expand(x))
    return [ent(x) for x in interp.stack], [ent(x) for x in interp.memory], [B.py_expand(c.pattern) for c in interp.claims]


def same_state(sa, sb, sm, with_claims=True):
    ren = lambda t: B.rename_syms(t, lambda s: int(s) if isinstance(s, str) and s.isdigit() else s)
    for part, (xa, xb) in zip(('stack', 'memory'), zip(sa[:2], sb[:2])):
        if len(xa) != len(xb): return '%s length %d vs %d' % (part, len(xa), len(xb))
        for i, ((ka, ta), (kb, tb)) in enumerate(zip(xa, xb)):
            if ka != kb or not B.unify(ta, ren(tb), sm):
                return '%s[%d]: %s:%s vs %s:%s' % (part, i, ka, B.show_ext(ta), kb, B.show_ext(tb))
    if not with_claims:
        return None
    if len(sa[2]) != len(sb[2]) or not all(B.unify(a, ren(b), sm) for a, b in zip(sa[2], sb[2])):
        return 'claims: %s vs %s' % ([B.show_ext(c) for c in sa[2]], [B.show_ext(c) for c in sb[2]])
    return None


def generate(rng, tier):
    sc = _p.gen_scenario(rng, tier)
    sc['optimize'] = rng.random() < 0.4
    sc['_tier'] = tier
    sc['enum_trunc'] = True
    sc['overwrites'] = [rng.randrange(10**6) for _ in range(rng.choice([0, 4, 12]))]
    return sc


def run_writer(mod, optimize):
    from proof_generation.interpreter import ExecutionPhase
    from proof_generation.serializing_interpreter import SerializingInterpreter
    from proof_generation.counting_interpreter import CountingInterpreter
    from proof_generation.optimizing_interpreters import MemoizingInterpreter
    from proof_generation.claim import Claim
    from .history import Sink
    sinks = [Sink(), Sink(), Sink()]
    claims = [Claim(c) for c in mod._claims]
    ser = recording(SerializingInterpreter)(ExecutionPhase.Gamma, sinks[0], claims, sinks[1], sinks[2])
    ser.log = []
    outer = ser
    if optimize:
        an = CountingInterpreter(ExecutionPhase.Gamma, [Claim(c) for c in mod._claims])
        mod.execute_full(an)
        outer = MemoizingInterpreter(ser, an.finalize())
    snaps, logs = [], []
    mod.execute_gamma_phase(outer, False)
    snaps.append(state_of(ser)); logs.append(ser.log); ser.log = []
    outer.into_claim_phase()
    mod.execute_claims_phase(outer, False)
    snaps.append(state_of(ser)); logs.append(ser.log); ser.log = []
    outer.into_proof_phase()
    mod.execute_proofs_phase(outer)
    snaps.append(state_of(ser)); logs.append(ser.log)
    return [bytes(s.data) for s in sinks], snaps, logs


def fresh_reader(pretty=False):
    from proof_generation.interpreter import ExecutionPhase
    from proof_generation.pretty_printing_interpreter import PrettyPrintingInterpreter
    from proof_generation.stateful_interpreter import StatefulInterpreter
    if pretty:
        rd = recording(PrettyPrintingInterpreter)(ExecutionPhase.Gamma, io.StringIO(), None, io.StringIO(), io.StringIO())
    else:
        rd = recording(StatefulInterpreter)(ExecutionPhase.Gamma)
    rd.log = []
    return rd


def feed(rd, phase, data):
    from proof_generation.deserialize import deserialize_instructions
    deserialize_instructions(data, rd)


def execute(sc, ctx):
    out = Outcome()
    from .. import gen_patterns as _gp
    _gp.MULTI_HOLES = True      # two-entry, descending hole lists (S85); only this engine, only while the recipe is drawn
    try:
        mod, recipe = _p.materialise(sc)
    except C.Refused as e:
        out.refused = True
        out.event('refused-at-build', str(e)[:80])
        return out
    finally:
        _gp.MULTI_HOLES = False
    if recipe is not None:
        out.explicit = dict(sc, recipe=recipe)
        out.explicit.pop('compose', None)
        out.nontrivial = any(s[0] in ('lib', 'mp', 'inst', 'gen', 'taut') for s in recipe['steps'])
    else:
        out.nontrivial = True
    cap = 25000 if sc.get('_tier') == 'thorough' else 12000
    try:
        # size gate first, on a separately built twin and without optimisation: the optimiser's counting pre-pass and the
        # toolkit's equality modulo notation are far worse than linear in the proof size
        twin = _p.materialise(dict(sc, recipe=recipe))[0] if recipe is not None else _p.materialise(sc)[0]
        pfs = SimFS()
        _p.serialise(twin, pfs, '/sim/probe', 'binary', False)
        if sum(len(x) for x in pfs.triple('/sim/probe')) > cap:
            out.event('module too large for this tier: not judged')
            out.nontrivial = False
            return out
    except Exception as e:
        out.event('twin does not serialise', type(e).__name__)
    try:
        streams, snaps, logs = run_writer(mod, sc['optimize'])
    except Exception as e:
        out.refused = True
        out.event('refused-at-serialise', type(e).__name__, str(e)[:80])
        return out
    ok_r1 = R.verify(*streams)[0]
    out.event('written', [len(s) for s in streams], ok_r1)
    if not ok_r1:
        out.event('triple rejected by R1 (C02 territory): round trip not judged')
        return out
    if sum(len(x) for x in streams) > cap:
        out.event('module too large for this tier: not judged')
        out.nontrivial = False
        return out
    # ---------------- fault-free class: replay
    small = sum(len(x) for x in streams) <= 2500
    rd = fresh_reader(pretty=small)      # the pretty-printing reader dumps the whole stack per call: small modules only
    sm = B.SymMap()
    for ph in range(3):
        if ph == 1: rd.into_claim_phase()
        if ph == 2: rd.into_proof_phase()
        rd.log = []
        names = [c[0] for c in logs[ph]]
        try:
            feed(rd, ph, streams[ph])
        except Exception as e:
            out.violate('deserialising the bytes of a phase replays it without error', 'C14|replay-raises|%s|%s' % (type(e).__name__, first_unreplayed(logs[ph], rd.log)),
                        'phase %d: %s: %s (after %d of %d calls)' % (ph, type(e).__name__, str(e)[:300], len(rd.log), len(logs[ph])))
            break
        out.ops += len(rd.log)
        for c in rd.log:
            out.transitions.add('%d/%s' % (ph, c[0]))
        bad = None
        if len(rd.log) != len(logs[ph]):
            bad = 'call count %d vs %d' % (len(rd.log), len(logs[ph]))
        else:
            for i, (a, b) in enumerate(zip(logs[ph], rd.log)):
                if not same_call(a, b, sm):
                    bad = 'call %d: writer %s%s reader %s%s' % (i, a[0], [norm_arg(x) for x in a[1]], b[0], [norm_arg(x) for x in b[1]])
                    break
        if bad:
            k = first_unreplayed(logs[ph], rd.log)
            out.violate('the deserialiser issues the same sequence of machine steps', 'C14|calls-differ|' + k, 'phase %d: %s' % (ph, bad[:1500]))
            break
        # the writer's tracker holds the declared claims from construction; a fresh reader learns them in the claim phase
        d = same_state(snaps[ph], state_of(rd), sm, with_claims=ph >= 1)
        if d:
            out.violate('same stack, memory and claims at the end of the phase', 'C14|state-differs|phase%d' % ph, d[:1500])
            break
        for n, p in (('esubst', 'esubst_roundtrip'), ('ssubst', 'ssubst_roundtrip'), ('exists_quantifier', 'quantifier_roundtrip'),
                     ('exists_generalization', 'generalization_roundtrip'), ('load', 'save_load_roundtrip')):
            if n in names: out.probe(p)
        if any(c[0] == 'metavar' and any(c[1][1:]) for c in logs[ph]): out.probe('constrained_metavar_roundtrip')
        if ph == 0 and 'publish_axiom' in names: out.probe('publish_gamma_roundtrip')
        if ph == 1 and 'publish_claim' in names: out.probe('publish_claim_roundtrip')
        if ph == 2 and 'publish_proof' in names: out.probe('publish_proof_roundtrip')
    # ---------------- fault-injecting class: faults are injected into the live stream.  The reader is
    # fed instruction by instruction; before each instruction every cut inside it and an unknown / zero
    # opcode in its place are tried on the live reader: the reader must raise (operands are decoded
    # before any state is touched, so a raising attempt leaves the reader where it was), then the
    # intact instruction is fed and the stream moves on.
    if not out.violations:
        import random
        undefined = [v for v in range(256) if v not in R.NAME]
        rd2 = fresh_reader()
        rr = random.Random(sc.get('overwrites', [0])[0] if sc.get('overwrites') else 0)
        dense = sum(len(x) for x in streams) <= 400
        stop = False
        for ph in range(3):
            if stop: break
            if ph == 1: rd2.into_claim_phase()
            if ph == 2: rd2.into_proof_phase()
            chunks, _ = R.split(streams[ph])
            for ci, c in enumerate(chunks):
                trials = []
                for k in range(1, len(c)):
                    trials.append((c[:k], 'truncated-operand', 'trunc'))
                if dense or rr.random() < 0.1:
                    trials.append((bytes([0]) + c[1:], 'zero-opcode', 'over'))
                    trials.append((bytes([rr.choice(undefined)]) + c[1:], 'unknown-opcode', 'over'))
                for data, label, kind in trials:
                    if R.split(data)[1]:
                        continue
                    out.fault(kind); out.klass = 'fault-injecting'
                    if kind == 'trunc': out.probe('truncation_inside_operand')
                    if label == 'zero-opcode': out.probe('zero_byte_injected')
                    try:
                        feed(rd2, ph, data)
                    except Exception:
                        out.probe('deserialiser_raised_on_malformed')
                        continue
                    out.violate('truncated or unknown input is reported as an error', 'C14|malformed-accepted|' + label,
                                'phase %d instruction %d (%s), stream ends with / is replaced by %s: deserialize_instructions returned normally' % (ph, ci, c.hex(), data.hex()))
                    stop = True
                    break
                if stop: break
                try:
                    feed(rd2, ph, c)
                except Exception as e:
                    out.event('live-feed-raised', ph, ci, type(e).__name__)
                    stop = True
                    break
    return out


def first_unreplayed(wlog, rlog):
    """Name of the first writer call the reader did not reproduce (for signatures)."""
    i = 0
    while i < len(wlog) and i < len(rlog) and wlog[i][0] == rlog[i][0]:
        i += 1
    return wlog[i][0] if i < len(wlog) else 'end'


def shrink(sc):
    if sc.get('overwrites'):
        yield dict(sc, overwrites=[])
    yield from _p.shrink_recipe(sc)
