"""C08 (E-history): one proof expression (the same thunk objects) is run through a seeded
sequence of interpreter stacks inside one process; all must succeed or all must fail, with the
same conclusions, equal to the advertised one, independently of the order."""
import io
import random

from .pipeline import *  # noqa
from . import pipeline as _p
from .. import compose as C
from .. import terms as T
from .. import bridge as B
from ..core import Outcome
from .history import Sink

PROPERTY = 'C08'
TIERS = {'quick': {'runs': 700, 'wall': 80, 'min_budget': 60}, 'thorough': {'runs': 150000, 'wall': 1200, 'min_budget': 200}}
RULE = ('one run = one composed module (C02 composer; 30% of the explicit instantiations go through ProofExp.instantiate instead of dynamic_inst; 10% of the claimed thunks are '
        're-wrapped with a wrong advertised conclusion) whose claimed proof thunks are run, as the same objects, through 5-8 interpreter stacks in a seeded order inside one process: '
        'BasicInterpreter, StatefulInterpreter, CountingInterpreter, SerializingInterpreter and PrettyPrintingInterpreter on in-memory sinks, MemoizingInterpreter over each with the '
        'empty set / the finalize() set of a counting pre-pass / an adversarial set, InstantiationOptimizer, and stacks of two transformers. Per thunk: all stacks raise or none does, '
        'all conclusions are equal to each other and to .conc modulo notation. Non-trivial = thunk with a rule/library step in its cone; distinct = distinct event-log digests.')
TRANSITION_MEASURE = '(interpreter stack, outcome class, position in the order) tuples'
PROBES = ['stacks_ge6', 'memo_with_finalize_set', 'memo_adversarial_set', 'two_transformers', 'wrong_advertised_conclusion', 'proofexp_instantiate_used', 'all_raise_consistently', 'dynamic_inst_used', 'claims_list_shared', 'results_published']
ASSUMPTIONS = ['expressions are built only with the public DSL and the libraries (no hand-written lambdas that break the stack discipline)']
COMPONENTS = dict(_p.COMPONENTS, **{'all interpreter classes and transformers': 'real'})

STACKS = ['basic', 'stateful', 'counting', 'serializing', 'pretty', 'memo0+serializing', 'memoF+serializing', 'memoA+stateful', 'instopt+stateful', 'instopt+serializing',
          'memoF+instopt+serializing', 'instopt+memoF+stateful', 'memoA+pretty']


class StackTimeout(BaseException):
    pass


class time_limit:
    """Wall-clock guard for one interpreter stack: rendering deeply nested notation in the
    pretty-printing interpreter is exponential (a performance matter, not this property)."""

    def __init__(self, seconds):
        self.seconds = seconds

    def __enter__(self):
        import signal

        def handler(signum, frame):
            raise StackTimeout()
        self.old = signal.signal(signal.SIGALRM, handler)
        signal.setitimer(signal.ITIMER_REAL, self.seconds)

    def __exit__(self, *a):
        import signal
        signal.setitimer(signal.ITIMER_REAL, 0)
        signal.signal(signal.SIGALRM, self.old)
        return False


def generate(rng, tier):
    n = rng.choice([5, 6, 8])
    order = ['basic'] + rng.sample(STACKS[1:], n - 1)
    rng.shuffle(order)
    sc = {'compose': rng.getrandbits(48), 'order': order, 'pinst': rng.getrandbits(30), 'wrong': rng.random() < 0.1, '_tier': tier}
    # as ProofExp.execute_proofs_phase does: every result is published against the claim queue; and, as ProofExp.serialize
    # does, one claims list object is handed to several interpreters
    sc['publish'] = rng.random() < 0.5
    sc['share_claims'] = rng.random() < 0.5
    return sc


def make_interp(name, mod, memo_sets, shared_claims=None):
    from proof_generation.interpreter import ExecutionPhase
    from proof_generation.basic_interpreter import BasicInterpreter
    from proof_generation.stateful_interpreter import StatefulInterpreter
    from proof_generation.counting_interpreter import CountingInterpreter
    from proof_generation.serializing_interpreter import SerializingInterpreter
    from proof_generation.pretty_printing_interpreter import PrettyPrintingInterpreter
    from proof_generation.optimizing_interpreters import MemoizingInterpreter, InstantiationOptimizer
    from proof_generation.claim import Claim
    parts = name.split('+')
    base = parts[-1]
    claims = shared_claims if shared_claims is not None else [Claim(c) for c in mod._claims]
    if base == 'basic': it = BasicInterpreter(ExecutionPhase.Gamma)
    elif base == 'stateful': it = StatefulInterpreter(ExecutionPhase.Gamma, claims)
    elif base == 'counting': it = CountingInterpreter(ExecutionPhase.Gamma, claims)
    elif base == 'serializing': it = SerializingInterpreter(ExecutionPhase.Gamma, Sink(), claims, Sink(), Sink())
    elif base == 'pretty': it = PrettyPrintingInterpreter(ExecutionPhase.Gamma, io.StringIO(), claims, io.StringIO(), io.StringIO(), mod.pretty_options())
    else: raise ValueError(base)
    for w in reversed(parts[:-1]):
        if w == 'instopt': it = InstantiationOptimizer(it)
        elif w.startswith('memo'): it = MemoizingInterpreter(it, set(memo_sets[w[4]]))
    return it


def execute(sc, ctx):
    out = Outcome()
    try:
        recipe = sc.get('recipe') or C.compose(sc['compose'], False)
        if 'recipe' not in sc:
            rr = random.Random(sc['pinst'])
            recipe = dict(recipe, steps=[(['pinst'] + s[1:]) if s[0] == 'inst' and rr.random() < 0.3 else s for s in recipe['steps']])
        b = C.build(recipe)
    except C.Refused as e:
        out.refused = True
        out.event('refused-at-build', str(e)[:80])
        return out
    mod = b.main
    out.explicit = {'recipe': recipe, 'order': sc['order'], 'wrong': sc.get('wrong', False), 'publish': sc.get('publish', False), 'share_claims': sc.get('share_claims', False)}
    # size gate on a separately built twin (the pretty-printing and counting interpreters are quadratic in the proof size)
    try:
        from ..simfs import SimFS
        twin = C.build(recipe).main
        pfs = SimFS()
        _p.serialise(twin, pfs, '/sim/probe', 'binary', False)
        size = sum(len(x) for x in pfs.triple('/sim/probe'))
        if size > (30000 if sc.get('_tier') == 'thorough' else 4000):
            out.event('module too large for this tier: not judged')
            return out
        if size > 1200:
            # the pretty-printing interpreter dumps the whole (never published, hence growing) stack per call
            sc = dict(sc, order=[n for n in sc['order'] if 'pretty' not in n])
            out.event('pretty stacks skipped for size')
    except Exception as e:
        out.event('twin does not serialise', type(e).__name__)
    steps = recipe['steps']
    cone = _p._closure(steps, recipe['claims'])
    out.nontrivial = any(steps[i][0] in ('lib', 'mp', 'inst', 'pinst', 'gen', 'taut') for i in cone)
    if any(steps[i][0] == 'pinst' for i in cone): out.probe('proofexp_instantiate_used')
    if any(steps[i][0] == 'inst' for i in cone): out.probe('dynamic_inst_used')
    if len(sc['order']) >= 6: out.probe('stacks_ge6')
    from proof_generation.proof import ProofThunk
    from proof_generation.counting_interpreter import CountingInterpreter
    from proof_generation.interpreter import ExecutionPhase
    from proof_generation.claim import Claim
    thunks = list(mod._proof_expressions)
    if sc.get('wrong') and thunks:
        from proof_generation.pattern import Implies
        t0 = thunks[0]
        thunks[0] = ProofThunk(t0._expr, Implies(t0.conc, t0.conc))
        out.probe('wrong_advertised_conclusion')
    # memoisation candidate sets: F = what serialize(optimize=True) would use, A = adversarial (every other sub-pattern seen)
    memo_sets = {'0': set(), 'F': set(), 'A': set()}
    try:
        an = CountingInterpreter(ExecutionPhase.Gamma, [Claim(c) for c in mod._claims])
        mod.execute_full(an)
        memo_sets['F'] = an.finalize()
        memo_sets['A'] = set(list(an._pattern_usage)[::2])
    except Exception:
        pass
    results = [dict() for _ in thunks]
    shared = [Claim(c) for c in mod._claims] if sc.get('share_claims') else None
    if shared is not None: out.probe('claims_list_shared')
    if sc.get('publish'): out.probe('results_published')
    for pos, name in enumerate(sc['order']):
        if 'memoF' in name: out.probe('memo_with_finalize_set')
        if 'memoA' in name: out.probe('memo_adversarial_set')
        if name.count('+') >= 2: out.probe('two_transformers')
        try:
            with time_limit(6 if 'pretty' in name else 25):
                try:
                    it = make_interp(name, mod, memo_sets, shared)
                    mod.execute_gamma_phase(it)
                    mod.execute_claims_phase(it)
                except Exception as e:
                    for r in results: r[name] = ('setup-raise', type(e).__name__)
                    out.event(pos, name, 'setup-raise', type(e).__name__)
                    continue
                in_step = bool(sc.get('publish'))     # the claim queue is only in step while every earlier expression succeeded
                for ti, th in enumerate(thunks):
                    try:
                        try:
                            pv = th(it)
                        except Exception:
                            in_step = False
                            raise
                        if in_step:
                            it.publish_proof(pv)
                        try:
                            results[ti][name] = ('ok', B.py_expand(pv.conclusion))
                        except T.Abort as e:
                            results[ti][name] = ('ok', ('illegal', str(e)))
                    except Exception as e:
                        results[ti][name] = ('raise', type(e).__name__)
                    out.ops += 1
                    out.transitions.add('%s/%s/%d' % (name, results[ti][name][0], min(pos, 3)))
        except StackTimeout:
            for r in results: r.pop(name, None)
            out.note = 'timing-dependent'
            out.probe('stack_abandoned_by_wallclock_guard')
            continue
        out.event(pos, name, [r[name][0] for r in results])
    for ti, (th, res) in enumerate(zip(thunks, results)):
        kinds = set(v[0] for v in res.values())
        uses_pinst = ti < len(b.claimed_steps) and any(steps[i][0] == 'pinst' for i in _p._closure(steps, [b.claimed_steps[ti]]))
        tag = '|proofexp-instantiate' if uses_pinst else ''
        if kinds == {'raise'} or kinds == {'setup-raise'} or kinds == {'raise', 'setup-raise'}:
            out.probe('all_raise_consistently')
            continue
        if len(kinds) > 1:
            bad = sorted(n for n, v in res.items() if v[0] != 'ok')
            good = sorted(n for n, v in res.items() if v[0] == 'ok')
            out.violate('a proof expression succeeds under all interpreters or fails under all', 'C08|some-raise' + tag + '|raises:' + ','.join(sorted(set(x.split('+')[-1] for x in bad))),
                        'thunk %d: ok under %s; raises under %s (%s)' % (ti, good, bad, sorted(set(res[n][1] for n in bad))))
            continue
        concs = {n: v[1] for n, v in res.items()}
        ref_name = next(n for n in sc['order'] if n in concs)
        for n, c in concs.items():
            if c != concs[ref_name]:
                out.violate('all interpreters return the same conclusion', 'C08|conclusion-differs' + tag + '|' + n.split('+')[0],
                            'thunk %d: %s gives %s, %s gives %s' % (ti, ref_name, B.show_ext(concs[ref_name]), n, B.show_ext(c)))
                break
        else:
            try:
                adv = B.py_expand(th.conc)
            except T.Abort:
                adv = None
            if adv is not None and concs[ref_name] != adv:
                out.violate('the conclusion equals the one the expression advertises', 'C08|advertised-differs' + tag, 'thunk %d: advertised %s got %s' % (ti, B.show_ext(adv), B.show_ext(concs[ref_name])))
    return out


def shrink(sc):
    if 'recipe' not in sc:
        return
    if len(sc['order']) > 2:
        for i in range(len(sc['order'])):
            yield dict(sc, order=sc['order'][:i] + sc['order'][i + 1:])
    if sc.get('publish'): yield dict(sc, publish=False)
    if sc.get('share_claims'): yield dict(sc, share_claims=False)
    yield from _p.shrink_recipe(sc)
