"""C07: Python proof rules apply exactly when the documented rule applies (per-call oracle
inside the E-history runs, adversarial calls over-represented)."""
from .history import *  # noqa
from . import history as _h
from ..core import Outcome

TIERS = {'quick': {'runs': 14000, 'wall': 75, 'min_budget': 40}, 'thorough': {'runs': 2000000, 'wall': 900, 'min_budget': 150}}

PROPERTY = 'C07'
RULE = ('same histories as C04 but with 25-45% adversarial rule calls (mismatching antecedent up to notation, non-implication premise, generalised '
        'variable free in the consequent directly / under notation / in a pending substitution / via an unconstrained metavariable, '
        'constraint-violating or capturing plugs); every modus_ponens / exists_generalization / instantiate(_pattern) call is judged against R3/R1: '
        'either it raises, or the rule applies and the returned conclusion equals the rule\'s. Non-trivial and distinct as for C04.')
PROBES = ['adversarial_call_refused', 'adversarial_call_accepted', 'generalization_accepted', 'instantiate_keys_unsorted',
          'notation_nested_ge2', 'history_completed']


def generate(rng, tier):
    return _h._gen(rng, tier, adversarial=rng.choice([0.25, 0.35, 0.45]))


def execute(sc, ctx):
    out = Outcome()
    sc = dict(sc, rust=False)
    _h.run_history(sc, ctx, {'C07'}, out)
    out.klass = 'adversarial-caller'
    return out


shrink = _h.shrink_history
