"""E-history: a real SerializingInterpreter (optionally under MemoizingInterpreter /
InstantiationOptimizer) is driven call by call; after every accepted call the bytes appended
since the previous call are executed by R1 and the tracker state is compared with the
machine state (C04); every modus_ponens / exists_generalization / instantiate call is
judged against the documented rule (C07).  Sinks are in-memory streams installed at the
interpreters' IO seam."""
from __future__ import annotations

from .. import terms as T
from .. import refmachine as R
from .. import bridge as B
from ..core import Outcome
from ..gen_history import HistoryGen

ISOLATE = True
LEVEL = 'exploration'
TIERS = {
    'quick': {'runs': 2600, 'wall': 75, 'min_budget': 40},
    'thorough': {'runs': 500000, 'wall': 900, 'min_budget': 150},
}
TRANSITION_MEASURE = '(phase, DSL call, kind:constructor of the top two machine stack entries before the call, wrapper stack) tuples'
COMPONENTS = {'SerializingInterpreter / StatefulInterpreter / BasicInterpreter / MemoizingInterpreter / InstantiationOptimizer / Interpreter.pattern': 'real',
              'output files': 'in-memory sinks at the IO seam', 'documented machine': 'model R1', 'rust/src/lib.rs': 'real, lock-step on the emitted bytes'}
ASSUMPTIONS = ['refinement relation of DESIGN.md 4/C04: tracker stack compared after removing entries already published (publish_* does not pop in the tracker; pinned by test_proof.py)',
               'argument patterns are well-formed by the documented judgement (well-formed workload, DESIGN.md 3.1)']
PROBES = ['load_emitted', 'load_across_phase', 'memoizer_saved_then_loaded', 'instantiate_keys_unsorted', 'instantiate_arity_ge3',
          'esubst_emitted', 'ssubst_emitted', 'constrained_metavar_emitted', 'notation_nested_ge2', 'generalization_accepted',
          'claims_ge2', 'history_completed', 'partial_notation_map',
          'rust_lockstep', 'publish_proof_accepted']


class Sink:
    """An output stream of the simulated file system: keeps what was written, refuses
    writes after close."""

    def __init__(self):
        self.data = bytearray()
        self.closed = False

    def write(self, b):
        if self.closed:
            raise ValueError('write to closed stream')
        self.data += b
        return len(b)

    def close(self):
        self.closed = True


def prepare():
    from .. import rust
    rust.build_harness()
    rust.gc_builds()


def warmup(ctx):
    B.toolkit()
    import proof_generation.serializing_interpreter  # noqa
    import proof_generation.optimizing_interpreters  # noqa
    import proof_generation.pretty_printing_interpreter  # noqa
    import proof_generation.counting_interpreter  # noqa
    ctx.harness


def _gen(rng, tier, adversarial):
    g = HistoryGen(rng, adversarial=adversarial, max_ops=rng.choice([6, 12, 25, 40]))
    sc = g.build()
    sc['wrap'] = rng.choice(['none', 'none', 'memo', 'instopt', 'memo+instopt', 'instopt+memo'])
    memo = []
    if 'memo' in sc['wrap']:
        cands = list(g.pool)
        for ph in sc['ops']:
            for o in ph:
                if o[0] == 'pattern' and rng.random() < 0.3:
                    cands.append(o[1])
        rng.shuffle(cands)
        memo = cands[:rng.randint(0, 6)]
    sc['memo'] = memo
    sc['rust'] = rng.random() < 0.4
    return sc


def has_nested_notation(t, depth=0):
    if t[0] == 'N':
        if depth >= 1:
            return True
        return has_nested_notation(t[1], depth + 1) or any(has_nested_notation(a, depth + 1) for _, a in t[2])
    if t[0] in ('i', 'a'):
        return has_nested_notation(t[1], depth) or has_nested_notation(t[2], depth)
    if t[0] in ('E', 'M'):
        return has_nested_notation(t[2], depth)
    if t[0] in ('es', 'ss'):
        return has_nested_notation(t[1], depth) or has_nested_notation(t[3], depth)
    return False


def has_partial_map(t):
    if t[0] == 'N':
        ids = set(m[1] for m in T.metavars(B.expand(t[1])))
        if ids - set(i for i, _ in t[2]):
            return True
        return has_partial_map(t[1]) or any(has_partial_map(a) for _, a in t[2])
    if t[0] in ('i', 'a'): return has_partial_map(t[1]) or has_partial_map(t[2])
    if t[0] in ('E', 'M'): return has_partial_map(t[2])
    if t[0] in ('es', 'ss'): return has_partial_map(t[1]) or has_partial_map(t[3])
    return False


def contains_N(t):
    if t[0] == 'N': return True
    if t[0] in ('i', 'a'): return contains_N(t[1]) or contains_N(t[2])
    if t[0] in ('E', 'M'): return contains_N(t[2])
    if t[0] in ('es', 'ss'): return contains_N(t[1]) or contains_N(t[3])
    return False


class IllTyped(Exception):
    pass


class Skip(Exception):
    pass


def run_history(sc, ctx, want, out):
    """want: set of properties whose oracles are active ('C04', 'C07')."""
    P = B.toolkit()
    from proof_generation.interpreter import ExecutionPhase
    from proof_generation.serializing_interpreter import SerializingInterpreter
    from proof_generation.optimizing_interpreters import MemoizingInterpreter, InstantiationOptimizer
    from proof_generation.proved import Proved
    from proof_generation.claim import Claim

    sinks = [Sink(), Sink(), Sink()]
    claims = [Claim(B.to_py(T.tup(c))) for c in sc['claims']]
    inner = SerializingInterpreter(ExecutionPhase.Gamma, sinks[0], claims, sinks[1], sinks[2])
    outer = inner
    for w in reversed(sc['wrap'].split('+')):
        if w == 'memo':
            outer = MemoizingInterpreter(outer, set(B.to_py(T.tup(m)) for m in sc['memo']))
        elif w == 'instopt':
            outer = InstantiationOptimizer(outer)
    r1 = R.Machine()
    sm = B.SymMap()
    consumed = [0, 0, 0]
    chunks = [[], [], []]
    r1_dumps = [[], [], []]
    stale = set()
    declared = [B.expand(T.tup(c)) for c in sc['claims']]
    if len(declared) >= 2: out.probe('claims_ge2')
    stopped = None

    def view():
        return [x for i, x in enumerate(inner.stack) if i not in stale]

    touched = [False]

    def need(v, n, kinds):
        if len(v) < n:
            raise IllTyped('stack too short')
        phys = len(inner.stack)
        if any(i in stale for i in range(phys - n, phys)):
            if not sc.get('touch_stale'):
                raise Skip()
            touched[0] = True
        for x, kd in zip(v[-n:], kinds):
            if kd == 'T' and not isinstance(x, Proved): raise IllTyped('expected Proved')
            if kd == 'P' and isinstance(x, Proved): raise IllTyped('expected Pattern')

    def conc(x):
        # C07 judges the denoted pattern: notation arguments that the definition does not use are not part of it
        return B.py_expand(x.conclusion, lazy=True)

    def compare_state(opname):
        # (a) stack (minus stale published entries), (b) memory, (c) claims
        v = view()
        if len(v) != len(r1.stack):
            return ('stack', 'depth: tracker(non-stale)=%d machine=%d' % (len(v), len(r1.stack)))
        for idx, (x, (kd, t)) in enumerate(zip(v, r1.stack)):
            k2 = 'T' if isinstance(x, Proved) else 'P'
            try:
                e = B.py_expand(x.conclusion if k2 == 'T' else x, lazy=True)     # the denoted pattern (unused notation arguments are not part of it)
            except T.Abort as ex:
                return ('stack', 'tracker entry %d does not expand legally: %s' % (idx, ex))
            if k2 != kd or not B.unify(e, t, sm):
                return ('stack', 'entry %d: tracker %s:%s machine %s:%s' % (idx, k2, B.show_ext(e), kd, T.show(t)))
        if len(inner.memory) != len(r1.memory):
            return ('memory', 'length: tracker=%d machine=%d' % (len(inner.memory), len(r1.memory)))
        for idx, (x, (kd, t)) in enumerate(zip(inner.memory, r1.memory)):
            k2 = 'T' if isinstance(x, Proved) else 'P'
            try:
                e = B.py_expand(x.conclusion if k2 == 'T' else x, lazy=True)
            except T.Abort as ex:
                return ('memory', 'tracker slot %d does not expand legally: %s' % (idx, ex))
            if k2 != kd or not B.unify(e, t, sm):
                return ('memory', 'slot %d: tracker %s:%s machine %s:%s' % (idx, k2, B.show_ext(e), kd, T.show(t)))
        if r1.phase == R.PROOF:
            tc = [B.py_expand(c.pattern, lazy=True) for c in inner.claims]
            mc = list(reversed(r1.claims))
            if len(tc) != len(mc) or not all(B.unify(a, b, sm) for a, b in zip(tc, mc)):
                return ('claims', 'tracker remaining=%s machine outstanding (discharge order)=%s' % ([B.show_ext(c) for c in tc], [T.show(c) for c in mc]))
        return None

    for phase in range(3):
        if phase:
            try:
                (outer.into_claim_phase if phase == 1 else outer.into_proof_phase)()
            except Exception as e:
                out.event('phase-refused', phase, type(e).__name__)
                stopped = 'phase transition refused'
                break
            r1.next_phase()
            stale = set()
            if phase == 2 and 'C04' in want:
                mc = list(reversed(r1.claims))
                if len(mc) != len(declared) or not all(B.unify(B.rename_syms(a, B.sym_name), b, sm) for a, b in zip(declared, mc)):
                    out.violate('machine claim list at end of claim phase == declared claims', 'C04|claims|end-of-claim-phase',
                                'declared=%s machine=%s' % ([T.show(c) for c in declared], [T.show(c) for c in mc]))
                    stopped = 'violation'
                    break
        for op in sc['ops'][phase]:
            name = op[0]
            v = list(inner.stack) if sc.get('touch_stale') else view()
            before_mem = len(inner.memory)
            shape = (R.Machine._shape(r1.stack[-1]) if r1.stack else '-', R.Machine._shape(r1.stack[-2]) if len(r1.stack) > 1 else '-')
            verdict = None      # C07: (applicable, expected or reason)
            loaded = None
            try:
                if name == 'pattern':
                    t = T.tup(op[1])
                    if has_nested_notation(t): out.probe('notation_nested_ge2')
                    ret = outer.pattern(B.to_py(t))
                elif name == 'evar': ret = outer.evar(op[1])
                elif name == 'svar': ret = outer.svar(op[1])
                elif name == 'symbol': ret = outer.symbol(B.sym_name(op[1]))
                elif name == 'metavar':
                    i, ef, sf, ps, ng, ho = op[1:7]
                    ret = outer.metavar(i, tuple(P.EVar(x) for x in ef), tuple(P.SVar(x) for x in sf), tuple(P.SVar(x) for x in ps),
                                        tuple(P.SVar(x) for x in ng), tuple(P.EVar(x) for x in ho))
                elif name in ('implies', 'app'):
                    need(v, 2, 'PP'); ret = getattr(outer, name)(v[-2], v[-1])
                elif name in ('exists', 'mu'):
                    need(v, 1, 'P'); ret = getattr(outer, name)(op[1], v[-1])
                elif name in ('esubst', 'ssubst'):
                    need(v, 2, 'PP')
                    if not isinstance(v[-1], (P.MetaVar, P.ESubst, P.SSubst)): raise IllTyped('substitution target')
                    ret = getattr(outer, name)(op[1], v[-1], v[-2])
                elif name in ('prop1', 'prop2', 'prop3'): ret = getattr(outer, name)()
                elif name == 'quantifier': ret = outer.exists_quantifier()
                elif name == 'mp':
                    need(v, 2, 'TT')
                    if 'C07' in want:
                        try:
                            L, Rr = conc(v[-2]), conc(v[-1])
                            if L[0] != 'i': verdict = (False, 'mp|not-implication')
                            elif L[1] != Rr: verdict = (False, 'mp|mismatch')
                            else: verdict = (True, L[2])
                        except T.Abort:
                            verdict = None
                    ret = outer.modus_ponens(v[-2], v[-1])
                elif name == 'gen':
                    need(v, 1, 'T')
                    if 'C07' in want:
                        try:
                            C = conc(v[-1])
                            raw = B.from_py(v[-1].conclusion)
                            if C[0] != 'i': verdict = (False, 'gen|not-implication')
                            elif not T.e_fresh(C[2], op[1]):
                                verdict = (False, 'gen|notfresh|' + ('notation' if contains_N(raw) else 'plain'))
                            else: verdict = (True, T.imp(T.ex(op[1], C[1]), C[2]))
                        except T.Abort:
                            verdict = None
                    ret = outer.exists_generalization(v[-1], P.EVar(op[1]))
                elif name in ('instantiate', 'instantiate_pattern'):
                    keys = list(op[1]); n = len(keys)
                    need(v, n + 1, 'P' * n + ('T' if name == 'instantiate' else 'P'))
                    plugs = v[-1 - n:-1] if n else []
                    delta = dict(zip(keys, plugs))
                    if keys != sorted(keys): out.probe('instantiate_keys_unsorted')
                    if n >= 3: out.probe('instantiate_arity_ge3')
                    if 'C07' in want:
                        try:
                            C = conc(v[-1]) if name == 'instantiate' else B.py_expand(v[-1], lazy=True)
                            pe = [B.py_expand(p, lazy=True) for p in plugs]
                            try:
                                verdict = (True, T.instantiate(C, keys, pe))
                            except T.Abort as ex:
                                verdict = (False, name + '|' + R1_reason(str(ex)))
                        except T.Abort:
                            verdict = None
                    ret = getattr(outer, name)(v[-1], delta)
                elif name == 'pop':
                    need(v, 1, '?'); ret = outer.pop(v[-1])
                elif name == 'save':
                    need(v, 1, '?'); ret = outer.save('s%d' % len(inner.memory), v[-1])
                elif name == 'load_term':
                    kd, t = op[1], B.rename_syms(B.expand(T.tup(op[2])), B.sym_name)
                    loaded = None
                    for x in inner.memory:
                        k2 = 'T' if isinstance(x, Proved) else 'P'
                        if k2 == kd and B.py_expand(x.conclusion if k2 == 'T' else x) == t:
                            loaded = x
                            break
                    if loaded is None:
                        out.event('skip', name)
                        continue
                    ret = outer.load('l', loaded)
                elif name == 'publish_axiom':
                    need(v, 1, 'P'); ret = outer.publish_axiom(v[-1])
                elif name == 'publish_claim':
                    need(v, 1, 'P'); ret = outer.publish_claim(v[-1])
                elif name == 'publish_proof':
                    need(v, 1, 'T'); ret = outer.publish_proof(v[-1])
                else:
                    raise ValueError(name)
            except Skip:
                out.event('skip-stale', name)
                continue
            except IllTyped as e:
                out.event('ill-typed', name, str(e))
                stopped = 'ill-typed call'
                break
            except Exception as e:   # the toolkit refused the call: the history ends here
                out.event('refused', name, type(e).__name__)
                out.refused = True
                if verdict is not None and not verdict[0]: out.probe('adversarial_call_refused')
                stopped = 'refused'
                break
            out.ops += 1
            out.transitions.add('%d/%s/%s/%s/%s' % (phase, name, shape[0], shape[1], sc['wrap']))
            if name.startswith('publish'):
                stale.add(len(inner.stack) - 1)
            # ---------------- C07: the call returned
            if verdict is not None and 'C07' in want:
                if not verdict[0]:
                    out.probe('adversarial_call_accepted')
                    out.violate('rule inapplicable => the call must raise', 'C07|inapplicable-accepted|' + verdict[1],
                                'call %s %s returned %s although the documented rule does not apply (%s)' % (name, op[1:], ret, verdict[1]))
                    stopped = 'violation'
                else:
                    try:
                        got = B.py_expand(ret.conclusion if isinstance(ret, Proved) else ret, lazy=True)
                    except T.Abort as ex:
                        got = ('illegal', str(ex))
                    if got != verdict[1]:
                        out.violate('returned conclusion == conclusion of the documented rule', 'C07|wrong-conclusion|' + name,
                                    'call %s %s returned %s, the rule yields %s' % (name, op[1:], B.show_ext(got) if got[0] != 'illegal' else got, B.show_ext(verdict[1])))
                        stopped = 'violation'
            if name == 'gen': out.probe('generalization_accepted')
            if name == 'publish_proof': out.probe('publish_proof_accepted')
            # ---------------- C04: run the machine on exactly the bytes this call appended
            new = bytes(sinks[phase].data[consumed[phase]:])
            consumed[phase] = len(sinks[phase].data)
            chunks[phase].append(new)
            if R.OP['ESubst'] in new and name in ('esubst', 'pattern'): out.probe('esubst_emitted')
            if R.OP['SSubst'] in new and name in ('ssubst', 'pattern'): out.probe('ssubst_emitted')
            if name == 'metavar' and any(op[2:7]): out.probe('constrained_metavar_emitted')
            if name == 'pattern' and has_partial_map(T.tup(op[1])): out.probe('partial_notation_map')
            try:
                r1.run_chunk(new)
            except T.Abort as ex:
                out.event('r1-abort', name, R1_reason(str(ex)))
                if 'C04' in want:
                    out.violate('the emitted bytes run without error on the documented machine',
                                'C04|abort|%s|%s' % (name, R1_reason(str(ex))),
                                'after call %s %s the bytes %s make the machine abort: %s' % (name, op[1:], new.hex(), ex))
                stopped = 'violation'
                break
            r1_dumps[phase].append(r1.dump())
            if 'C04' in want:
                bad = compare_state(name)
                if bad and touched[0]:
                    out.violate('tracker state == machine state after every call', 'C04|stale-published-entry',
                                'a call consumed a stack entry that publish_* had left on the tracker stack; after call %s %s: %s' % (name, op[1:], bad[1]))
                    stopped = 'violation'
                elif bad:
                    out.violate('tracker state == machine state after every call', 'C04|%s|%s' % (bad[0], name),
                                'after call %s %s (bytes %s): %s' % (name, op[1:], new.hex(), bad[1]))
                    stopped = 'violation'
                if name == 'load_term' or (name == 'pattern' and R.OP['Load'] in new):
                    out.probe('load_emitted')
                if name == 'load_term' and len(new) == 2 and new[0] == R.OP['Load']:
                    idx = new[1]
                    k2 = 'T' if isinstance(loaded, Proved) else 'P'
                    e = B.py_expand(loaded.conclusion if k2 == 'T' else loaded)
                    ok = idx < len(r1.memory) and r1.memory[idx][0] == k2 and B.unify(e, r1.memory[idx][1], sm)
                    if phase == 2 and idx < len(r1.journal['axioms']) + 5 and r1.journal['axioms']: out.probe('load_across_phase')
                    if not ok:
                        out.violate('every emitted Load addresses the slot holding the intended term', 'C04|load-index',
                                    'load of %s emitted index %d' % (B.show_ext(e), idx))
                        stopped = 'violation'
                if 'memo' in sc['wrap'] and name == 'pattern' and R.OP['Load'] in new and before_mem:
                    out.probe('memoizer_saved_then_loaded')
            out.event(phase, name, len(new), len(r1.stack), len(r1.memory))
            if stopped:
                break
        if stopped:
            break
    if not stopped:
        out.probe('history_completed')
    out.event('end', stopped)
    if any(o[0] in ('mp', 'gen', 'instantiate', 'instantiate_pattern', 'load_term', 'publish_proof') for o in sc['ops'][2]) and out.ops >= 3:
        out.nontrivial = True
    # ---------------- lock-step with the real checker on the emitted bytes
    if sc.get('rust') and 'C04' in want and not any(v['signature'].startswith('C04|abort') for v in out.violations):
        rc = ctx.harness.run_chunks(chunks, every=True)
        out.probe('rust_lockstep')
        for ph in range(3):
            for ci, d in enumerate(r1_dumps[ph]):
                got = rc.steps.get((ph, ci))
                if got != d:
                    out.violate('real checker == R1 on the emitted bytes, after every call', 'C04|rust-vs-r1',
                                'phase %d call %d: R1\n%s\nrust\n%s\npanic=%r' % (ph, ci, d, got, rc.panic))
                    return
    return


def R1_reason(msg):
    """Abort message -> stable reason class used in signatures."""
    m = ''.join(ch for ch in msg if not ch.isdigit()).replace('  ', ' ').strip()
    if m.startswith('instantiation breaks'):
        return 'constraint|' + m.split()[2]
    if 'would capture' in m:
        return 'capture|' + m.split()[0]
    return m


def shrink_history(sc):
    base = dict(sc)
    if sc['wrap'] != 'none':
        yield dict(base, wrap='none', memo=[])
    if sc.get('rust'):
        yield dict(base, rust=False)
    ops = sc['ops']
    # drop suffix/prefix chunks of the proof phase, then single ops anywhere
    for ph in (2, 0):
        n = len(ops[ph])
        span = n // 2
        while span >= 1:
            for i in range(0, n - span + 1, span):
                new_ops = [list(x) for x in ops]
                new_ops[ph] = ops[ph][:i] + ops[ph][i + span:]
                yield _fix_claims(dict(base, ops=new_ops))
            span //= 2
    # drop one claim together with its publication
    for ci in range(len(sc['claims'])):
        new_claims = sc['claims'][:ci] + sc['claims'][ci + 1:]
        yield _fix_claims(dict(base, claims=new_claims))


def _fix_claims(sc):
    """Keep the claim phase consistent with the declared claims."""
    cops = []
    for t in reversed(sc['claims']):
        cops.append(['pattern', t]); cops.append(['publish_claim'])
    ops = [sc['ops'][0], cops, sc['ops'][2]]
    return dict(sc, ops=ops)


def describe(sc):
    def o(x):
        if x[0] in ('pattern',): return 'pattern ' + B.show_ext(T.tup(x[1]))
        if x[0] == 'load_term': return 'load %s:%s' % (x[1], T.show(T.tup(x[2])))
        return ' '.join(str(y) for y in x)
    return {'wrap': sc['wrap'], 'memoize': [B.show_ext(T.tup(m)) for m in sc['memo']], 'claims': [T.show(B.expand(T.tup(c))) for c in sc['claims']],
            'gamma': [o(x) for x in sc['ops'][0]], 'claim_phase': [o(x) for x in sc['ops'][1]], 'proof': [o(x) for x in sc['ops'][2]][:80]}
