"""C02: every proof module the toolkit accepts is accepted by the checker (fault-free class)."""
from .pipeline import *  # noqa
from . import pipeline as _p
from .. import compose as C
from ..core import Outcome
from ..simfs import SimFS

PROPERTY = 'C02'
TIERS = {'quick': {'runs': 900, 'wall': 80, 'min_budget': 60}, 'thorough': {'runs': 200000, 'wall': 1200, 'min_budget': 200}}
RULE = ('one run = one proof module: a shipped one (Propositional, SmallTheory, Substitution, Tautology) or a seeded composition grown with the real toolkit '
        '(theory of 2-9 axioms over seeded atoms spread over an import graph with diamonds; forward composition of prop1-3, Quantifier, modus_ponens, '
        'exists_generalization, dynamic_inst and every public lemma / derived rule of Propositional / Tautology found by introspection, incl. prove_tautology, '
        'applied to arbitrary well-formed argument patterns with notation); serialised with the real ProofExp.serialize through SimFS with optimise off and on; '
        'the real checker and R1 must accept each triple. Non-trivial = at least one accepted library or rule step is in the dependency cone of a claim; '
        'distinct = distinct event-log digests.')
PROBES = ['lib_step', 'mp_step', 'inst_step', 'gen_step', 'taut_step', 'load_emitted', 'memoizer_saved', 'claims_ge2', 'import_depth_ge2',
          'diamond_import', 'notation_in_claim', 'optimized_differs', 'shipped_module', 'esubst_emitted', 'constrained_metavar_emitted', 'memory_pressure_module', 'grown_axiom_in_main', 'grown_axiom_in_submodule', 'grown_claim']
ASSUMPTIONS = ['well-formed workload: argument patterns are well-formed by the documented judgement and explicit instantiations are legal by R3 (DESIGN.md 3.1)']


# (exception type, innermost toolkit function) pairs that are a rule refusing its premises, judged when the lazy thunk is run
LEGITIMATE_REFUSALS = {('AssertionError', 'exists_generalization'), ('AssertionError', 'modus_ponens')}


def generate(rng, tier):
    if rng.random() < 0.02:
        # memory pressure: many distinct memoisable patterns next to a few axioms (the 256-slot budget)
        return {'pressure': {'axioms': rng.randint(1, 8), 'lemmas': rng.choice([120, 200, 245, 250, 255, 260]), 'load_axioms': rng.random() < 0.7},
                'order': [False, True], '_tier': tier}
    sc = _p.gen_scenario(rng, tier)
    sc['order'] = rng.choice([[False, True], [True, False]])
    sc['_tier'] = tier
    if rng.random() < 0.25:
        # the module goes on being used after it was serialised: an axiom is added (to the module or to one of its imported
        # modules), optionally a new imported module, a new claim with its proof; then it is serialised once more
        sc['grow'] = {'where': rng.randrange(8), 'import': rng.random() < 0.3, 'claim': rng.random() < 0.6, 'optimize': rng.random() < 0.5, 'salt': rng.randrange(1000)}
    return sc


def pressure_module(p):
    from proof_generation.proof import ProofExp
    from proof_generation.pattern import Implies, Symbol, App
    from proof_generation.proofs.propositional import Propositional
    axioms = [Implies(Symbol('ax%d' % i), App(Symbol('f'), Symbol('ax%d' % i))) for i in range(p['axioms'])]
    mod = ProofExp(axioms=axioms)
    lib = mod.import_module(Propositional())
    for i in range(p['lemmas']):
        t = App(Symbol('g'), App(Symbol('h%d' % (i % 7)), Symbol('c%d' % (i // 7))))
        th = lib.imp_refl(t)
        mod.add_claim(th.conc); mod.add_proof_expression(th)
    if p['load_axioms']:
        for a in axioms:
            th = lib.imp_provable(Symbol('c0'), mod.load_axiom(a))
            mod.add_claim(th.conc); mod.add_proof_expression(th)
    return mod


def execute(sc, ctx, want=('C02',)):
    out = Outcome()
    try:
        if 'pressure' in sc:
            mod, recipe = pressure_module(sc['pressure']), None
            out.probe('memory_pressure_module')
        else:
            mod, recipe = _p.materialise(sc)
    except C.Refused as e:
        out.refused = True
        out.event('refused-at-build', str(e)[:80])
        return out
    if recipe is not None:
        out.explicit = {'recipe': recipe, 'order': sc['order']}
        if sc.get('grow'): out.explicit['grow'] = sc['grow']
        steps = recipe['steps']
        cone = _p._closure(steps, recipe['claims'])
        for i in cone:
            s = steps[i]
            out.transitions.add('step/%s/%s' % (s[1] if s[0] in ('lib', 'prim') else s[0], ''.join(a[0] for a in s[2]) if s[0] == 'lib' else ''))
            if s[0] == 'lib': out.probe('lib_step')
            elif s[0] in ('mp', 'inst', 'gen', 'taut'): out.probe(s[0] + '_step')
        out.nontrivial = any(steps[i][0] in ('lib', 'mp', 'inst', 'gen', 'taut') for i in cone)
        mods = recipe['modules']
        if any(any(mods[j]['imports'] for j in m['imports']) for m in mods): out.probe('import_depth_ge2')
        cnt = {}
        def walk(j, seen):
            cnt[j] = cnt.get(j, 0) + 1
            for x in mods[j]['imports']: walk(x, seen)
        walk(len(mods) - 1, set())
        if any(v > 1 for v in cnt.values()): out.probe('diamond_import')
        if len(recipe['claims']) >= 2: out.probe('claims_ge2')
    else:
        out.probe('shipped_module')
        out.nontrivial = True
    try:
        axioms, claims = _p.declared_of(mod)
    except _p.T.Abort as e:
        # the module holds a term that is an illegal instantiation by the documented judgement (the toolkit accepted it:
        # findings D5 / D12).  Whether the checker takes it is C02's question; there is no declaration to compare for C03.
        out.event('declared term is illegal', str(e)[:80])
        if 'C02' not in want:
            out.refused = True
            return out
        axioms, claims = [], []
    if len(axioms) >= 3: out.probe('axioms_ge3')
    if 'C03' in want and (len(axioms) >= 2 or len(claims) >= 2): out.nontrivial = True
    try:
        if any(_p.B.from_py(c) != _p.B.py_expand(c) for c in mod._claims): out.probe('notation_in_claim')
    except _p.T.Abort:
        pass        # a claim that is an illegal instantiation (D5/D12): only this reach probe is skipped
    triples = {}
    refusals = {}
    fs = SimFS()
    cap = 60000 if sc.get('_tier') == 'thorough' else 9000
    if 'pressure' in sc:
        cap = 10 ** 7
    order = list(sc['order'])
    if order[0]:
        # size gate: the optimiser's pre-pass is quadratic in the proof size, so measure the plain form first
        probe_fs = SimFS()
        try:
            _p.serialise(mod, probe_fs, '/sim/probe', 'binary', False)
            big = len(probe_fs.triple('/sim/probe')[2]) > cap
        except Exception:
            big = False
        if big:
            order = [False]
            out.event('optimised-run-skipped-size')
    for opt in order:
        base = '/sim/out_%s' % ('opt' if opt else 'plain')
        if opt and triples.get(False) is not None and len(triples[False][2]) > cap:
            out.event('optimised-run-skipped-size')
            continue
        symlog = []
        try:
            if 'C03' in want:
                # observe, at the class seam, which number every symbol() call writes (all three files)
                from proof_generation.serializing_interpreter import SerializingInterpreter as _SI
                _orig_symbol = _SI.symbol

                def _symbol(self_, name, _o=_orig_symbol, _log=symlog):
                    r = _o(self_, name)
                    _log.append((name, self_.out.data[-1]))
                    return r
                _SI.symbol = _symbol
            try:
                _p.serialise(mod, fs, base, 'binary', opt)
            finally:
                if 'C03' in want:
                    _SI.symbol = _orig_symbol
        except Exception as e:
            out.refused = True
            out.event('refused-at-serialise', opt, type(e).__name__, str(e)[:80])
            refusals[opt] = type(e).__name__
            import traceback as _tb
            fn = next((f.name for f in reversed(_tb.extract_tb(e.__traceback__)) if 'proof_generation' in f.filename), '?')
            if 'C02' in want and (type(e).__name__, fn) not in LEGITIMATE_REFUSALS:
                # thunks are lazy: the only thing an interpreter may still refuse at this point is a rule whose side condition fails
                out.violate('a module the toolkit assembled serialises, unless a rule application in it is inapplicable', 'C02|unexpected-refusal|%s|%s' % (type(e).__name__, fn),
                            'optimize=%s: %s: %s' % (opt, type(e).__name__, str(e)[:300]))
            continue
        if symlog:
            n2i, i2n = {}, {}
            for name, i in symlog:
                if n2i.setdefault(name, i) != i or i2n.setdefault(i, name) != name:
                    out.violate('distinct symbols get distinct numbers and the same symbol the same number across the three files', 'C03|symbol-numbering',
                                'optimize=%s: symbol %r written as %d, but %s' % (opt, name, i, 'earlier as %d' % n2i[name] if n2i[name] != i else 'that number already denotes %r' % i2n[i]))
                    break
        triple = fs.triple(base)
        triples[opt] = triple
        out.event('serialised', opt, [len(x) for x in triple])
        if _p.R.OP['Load'] in triple[2]: out.probe('load_emitted')
        if opt and _p.R.OP['Save'] in b''.join(triple): out.probe('memoizer_saved')
        if 'C02' in want:
            m = _p.check_accept(triple, ctx, out, 'optimize=%s' % opt, mod)
        else:
            okv, m, _msg, _at = _p.R.verify(*triple)
            out.ops += len(m.trace)
            for t in m.trace:
                out.transitions.add('%d/%s/%s/%s' % t)
            if not okv:
                # the proof file is C02's business; the public gamma and claim files are still judged on their own
                out.event('triple-rejected (C02 territory)', opt)
                okg, mg, _m2, _a2 = _p.R.verify(triple[0], triple[1], b'')
                if mg.phase == 2 and not _m2.startswith(('ill-formed', 'instantiation', 'esubst', 'ssubst')) and len(mg.journal['claims']) == len(claims):
                    _p.journal_check(mg, axioms, claims, _p.B.SymMap(), out, 'optimize=%s (gamma and claim files only)' % opt, discharge=False)
                m = None
        if m is not None:
            names = [t[1] for t in m.trace]
            if 'ESubst' in names: out.probe('esubst_emitted')
            if 'MetaVar' in names: out.probe('constrained_metavar_emitted')
            if 'C03' in want:
                _p.journal_check(m, axioms, claims, _p.B.SymMap(), out, 'optimize=%s' % opt)
    if sc.get('grow') and triples and not out.violations:
        _grow(sc['grow'], mod, fs, ctx, out, want)
    if 'C02' in want and True in refusals and False in triples and not out.violations:
        # optimisation must not turn a module that serialises (and is accepted) without it into a refusal
        out.violate('serialising with optimisation succeeds whenever serialising without it does', 'C02|optimised-serialisation-refused|' + refusals[True],
                    'plain serialisation accepted by the checker (sizes %s); optimize=True raised %s' % ([len(x) for x in triples[False]], refusals[True]))
    if len(triples) == 2 and triples[False] != triples[True]:
        out.probe('optimized_differs')
        if 'C03' in want and (triples[False][0] != triples[True][0] and False):
            pass
    return out


def _grow(g, mod, fs, ctx, out, want):
    """History: the already serialised module object is extended and serialised again; what is published must be the
    declaration as it stands now."""
    from proof_generation.proof import ProofExp
    from proof_generation.pattern import App, Implies, Symbol
    targets, seen = [], set()

    def walk(m):
        if id(m) in seen: return
        seen.add(id(m))
        targets.append(m)
        for s in m._submodules: walk(s)
    walk(mod)
    tm = targets[g['where'] % len(targets)]
    new_ax = Implies(Symbol('grown%d' % g['salt']), App(Symbol('grown_f'), Symbol('grown%d' % g['salt'])))
    tm.add_axiom(new_ax)
    out.probe('grown_axiom_in_submodule' if tm is not mod else 'grown_axiom_in_main')
    if g['import']:
        sub = ProofExp(axioms=[App(Symbol('grown_g'), Symbol('grown%d' % g['salt']))])
        mod.import_module(sub)
        out.probe('grown_import')
    if g['claim']:
        th = tm.load_axiom(new_ax)
        mod.add_claim(th.conc)
        mod.add_proof_expression(th)
        out.probe('grown_claim')
    try:
        axioms, claims = _p.declared_of(mod)
    except _p.T.Abort:
        return
    base = '/sim/out_grown'
    try:
        _p.serialise(mod, fs, base, 'binary', g['optimize'])
    except Exception as e:
        if 'C02' in want:
            out.violate('a module extended after a serialisation serialises again', 'C02|grown|serialise-raises|' + type(e).__name__, str(e)[:300])
        return
    triple = fs.triple(base)
    out.event('serialised-after-growth', g['optimize'], [len(x) for x in triple])
    where = 'after growth (axiom added to %s%s%s), optimize=%s' % ('the module' if tm is mod else 'an imported module', ', new import' if g['import'] else '',
                                                                    ', new claim' if g['claim'] else '', g['optimize'])
    if 'C02' in want:
        _p.check_accept(triple, ctx, out, where, mod)
    else:
        okv, m, _msg, _at = _p.R.verify(*triple)
        okg, mg, _m2, _a2 = _p.R.verify(triple[0], triple[1], b'')
        if okv:
            _p.journal_check(m, axioms, claims, _p.B.SymMap(), out, where)
        elif mg.phase == 2 and not _m2.startswith(('ill-formed', 'instantiation', 'esubst', 'ssubst')):
            _p.journal_check(mg, axioms, claims, _p.B.SymMap(), out, where + ' (gamma and claim files only)', discharge=False)


def shrink(sc):
    if sc.get('grow'):
        g = sc['grow']
        if g['import']: yield dict(sc, grow=dict(g, **{'import': False}))
        if g['claim']: yield dict(sc, grow=dict(g, claim=False))
        if g['optimize']: yield dict(sc, grow=dict(g, optimize=False))
    yield from _p.shrink_recipe(sc)
