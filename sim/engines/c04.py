"""C04: the generator's tracked state is a faithful simulation of the machine."""
from .history import *  # noqa
from . import history as _h
from ..core import Outcome

PROPERTY = 'C04'
RULE = ('one run = one seeded history of proof-DSL calls (pattern() on nested patterns with notation, primitive constructors, the three axioms, '
        'Quantifier, modus_ponens, exists_generalization, instantiate / instantiate_pattern with any key order and partial maps, save/load/pop, '
        'the three publishes, both phase transitions; ~5% adversarial calls) issued to a real SerializingInterpreter, bare or under '
        'MemoizingInterpreter / InstantiationOptimizer; after every accepted call R1 executes exactly the appended bytes and stack, memory, '
        'claim queue and Load indices are compared. Non-trivial = at least 3 accepted calls including a rule, load or publish; distinct = distinct event-log digests.')


def generate(rng, tier):
    return _h._gen(rng, tier, adversarial=rng.choice([0.0, 0.03, 0.08]))


def execute(sc, ctx):
    out = Outcome()
    _h.run_history(sc, ctx, {'C04'}, out)
    return out


shrink = _h.shrink_history
