"""E-machine / C05: the Rust checker (real code, stepped instruction by instruction) against
R1 on generated streams and on their faulted variants (truncation at *every* byte,
single-byte overwrites enumerated on short streams, sampled drop/dup/swap/misroute)."""
from __future__ import annotations

import itertools
import os

from .. import terms as T
from .. import refmachine as R
from .. import faults as F
from ..core import Outcome
from ..gen_streams import StreamGen, random_program
from ..paths import REPO

PROPERTY = 'C05'
ISOLATE = False          # no toolkit code runs in-process; the Rust harness is stateless per request
LEVEL = 'fault_enumeration'
TIERS = {
    'quick': {'runs': 2400, 'wall': 70, 'min_budget': 20},
    'thorough': {'runs': 400000, 'wall': 900, 'min_budget': 120},
}
RULE = ('one run = one seeded base triple (guided generator stepping R1 / unguided short program over the opcode alphabet / '
        'shipped proof) executed stepwise in the real Rust checker and in R1, plus its faulted variants: every truncation '
        'offset of every stream, every single-byte overwrite by every defined opcode and sampled undefined bytes on streams '
        '<= 64 bytes, sampled flips/drops/dups/swaps/misroutes. Non-trivial = the base triple executes at least one of '
        'Instantiate/ModusPonens/Generalization/Substitution/Load/Publish in R1, or a fault fired; distinct = distinct event-log digests.')
TRANSITION_MEASURE = '(phase, instruction, kind:constructor of the top two stack entries) triples executed by R1'
COMPONENTS = {'rust/src/lib.rs': 'real (textual inclusion harness)', 'documented machine': 'model R1',
              'rust/src/main.rs': 'real, sampled (exit status)', 'python toolkit': 'not involved'}
ASSUMPTIONS = ['R1 stances 1-8 of DESIGN.md section 3.1', 'chunked execution equals whole-buffer execution (checked: the real verify() is run on every triple too)']
PROBES = ['truncation_inside_operand', 'flip_to_valid_opcode', 'base_accepted', 'base_rejected', 'variant_accepted',
          'instantiate_arity_ge3', 'load_across_phase', 'generalization_accepted', 'generalization_refused',
          'capture_refused', 'mu_positivity_refused', 'substitution_rule_applied', 'claims_ge2', 'real_binary_run']

SHIPPED = None


def prepare():
    from .. import rust
    rust.build_harness()
    rust.build_checker()
    rust.gc_builds()


def _shipped():
    global SHIPPED
    if SHIPPED is None:
        SHIPPED = []
        base = os.path.join(REPO, 'proofs')
        for n in ('propositional', 'small_theory', 'substitution'):
            try:
                SHIPPED.append(tuple(open(os.path.join(base, n + s), 'rb').read() for s in ('.ml-gamma', '.ml-claim', '.ml-proof')))
            except OSError:
                pass
    return SHIPPED


def generate(rng, tier):
    r = rng.random()
    sc = {'faults': [], 'enum_trunc': True, 'enum_over': False, 'binary': rng.random() < 0.02}
    if r < 0.62:
        g = StreamGen(rng, theory=rng.choice(['empty', 'valid', 'random']), max_ops=rng.choice([6, 12, 25, 40]))
        triple = g.build()
        sc['kind'] = 'guided'
    elif r < 0.97:
        n = rng.randint(1, 8)
        triple = (random_program(rng, rng.randint(0, 3)) if rng.random() < 0.3 else b'',
                  random_program(rng, rng.randint(0, 3)) if rng.random() < 0.3 else b'',
                  random_program(rng, n))
        sc['kind'] = 'random'
    else:
        sh = _shipped()
        triple = rng.choice(sh) if sh else (b'', b'', b'')
        sc['kind'] = 'shipped'
        sc['enum_trunc'] = rng.random() < 0.3
    sc['g'], sc['c'], sc['p'] = (x.hex() for x in triple)
    total = sum(map(len, triple))
    sc['enum_over'] = total <= 64 and rng.random() < 0.35
    bounds = []
    for b in triple:
        ch, _ = R.split(b)
        bounds.append(list(itertools.accumulate([0] + [len(c) for c in ch])))
    other = None
    if rng.random() < 0.3:
        other = StreamGen(rng, theory='random', max_ops=8).build()
    for _ in range(rng.choice([0, 2, 4, 8])):
        sc['faults'].append(F.sample(rng, triple, bounds, other))
    return sc


def _r1_reason(msg):
    return ''.join(ch for ch in msg if not ch.isdigit()).strip()


def compare(triple, ctx, stepwise=False, out=None):
    """None if Rust and R1 agree on this triple, else (kind, detail)."""
    ok, m, msg, at = R.verify(*triple)
    chunks = [R.split(b)[0] for b in triple]
    h = ctx.harness
    rw = h.verify(*triple)
    if out is not None:
        out.ops += len(m.trace)
        for t in m.trace:
            out.transitions.add('%d/%s/%s/%s' % t)
    if rw.accepted != ok:
        return ('verdict', 'rust verify()=%s R1=%s reason=%s rust_panic=%r at=%s' % (
            'accept' if rw.accepted else 'reject', 'accept' if ok else 'reject', msg, rw.panic, at), m, msg)
    if stepwise or ok:
        rc = h.run_chunks(chunks, every=stepwise)
        if rc.accepted != rw.accepted:
            return ('chunking', 'rust chunked=%s whole=%s (instruction boundaries disagree with R1) panic=%r' % (rc.accepted, rw.accepted, rc.panic), m, msg)
        if stepwise:
            m2 = R.Machine()
            try:
                for pi, ch in enumerate(chunks):
                    if pi: m2.next_phase()
                    for ci, c in enumerate(ch):
                        m2.run_chunk(c)
                        d = rc.steps.get((pi, ci))
                        if d is None:
                            return ('step', 'rust stopped before phase %d instr %d (%s) panic=%r' % (pi, ci, c.hex(), rc.panic), m, msg)
                        if d != m2.dump():
                            return ('state', 'after phase %d instr %d (%s):\nR1:\n%srust:\n%s' % (pi, ci, c.hex(), m2.dump(), d), m, R.NAME.get(c[0], '?'))
            except T.Abort:
                pass
        if ok:
            d = rc.phases.get(2)
            if d != m.dump():
                return ('state', 'final state differs:\nR1:\n%srust:\n%s' % (m.dump(), d), m, 'final')
    return None


def classify(triple, ctx, kind, extra):
    """Name the disagreement: the smallest set of deviation switches under which R1 agrees."""
    saved = set(T.FLAGS)
    try:
        flags = sorted(T.ALL_FLAGS)
        for n in range(1, 3):
            for off in itertools.combinations(flags, n):
                T.FLAGS.clear(); T.FLAGS.update(T.ALL_FLAGS - set(off))
                if compare(triple, ctx, stepwise=True) is None:
                    return 'C05|dev=' + '+'.join(off)
    finally:
        T.FLAGS.clear(); T.FLAGS.update(saved)
    return 'C05|unexplained|%s|%s' % (kind, _r1_reason(str(extra))[:60])


def execute(sc, ctx):
    out = Outcome()
    triple = tuple(bytes.fromhex(sc[k]) for k in ('g', 'c', 'p'))
    bad = compare(triple, ctx, stepwise=True, out=out)
    ok, m, msg, at = R.verify(*triple)
    out.event('base', ok, _r1_reason(msg), len(m.trace))
    out.probe('base_accepted' if ok else 'base_rejected')
    names = [t[1] for t in m.trace]
    if any(n in ('Instantiate', 'ModusPonens', 'Generalization', 'Substitution', 'Load', 'Publish') for n in names):
        out.nontrivial = True
    if 'Generalization' in names: out.probe('generalization_accepted')
    if 'Substitution' in names: out.probe('substitution_rule_applied')
    if 'variable not fresh' in msg: out.probe('generalization_refused')
    if 'capture' in msg: out.probe('capture_refused')
    if 'ill-formed mu' in msg: out.probe('mu_positivity_refused')
    if len(m.journal['claims']) >= 2: out.probe('claims_ge2')
    if any(t[0] == 2 and t[1] == 'Load' for t in m.trace) and m.journal['axioms']: out.probe('load_across_phase')
    for pi, buf in enumerate(triple):
        pos = 0
        try:
            while pos < len(buf):
                n_, ops_, pos = R.parse_one(buf, pos)
                if n_ == 'Instantiate' and len(ops_[0]) >= 3: out.probe('instantiate_arity_ge3')
        except T.Abort:
            pass
    if bad:
        out.violate('rust == R1 (base triple, stepwise)', classify(triple, ctx, bad[0], bad[3]), bad[1])

    def variant(fault, label):
        if len(out.violations) >= 2:
            return          # enough evidence from this run; keep a broken tree from costing minutes
        vt, fired = F.apply(triple, fault)
        if not fired:
            return
        out.fault(fault[0])
        out.klass = 'fault-injecting'
        out.nontrivial = True
        b = compare(vt, ctx, out=out)
        ok2 = R.verify(*vt)[0]
        if ok2: out.probe('variant_accepted')
        out.event(label, fault[:3], ok2, b[0] if b else None)
        if b:
            out.violate('rust == R1 (faulted variant %s)' % fault[0], classify(vt, ctx, b[0], b[3]),
                        'fault=%s\n%s' % (fault, b[1]))

    for f in sc['faults']:
        variant(f, 'fault')
    if sc.get('enum_trunc'):
        for fi in range(3):
            ch, _ = R.split(triple[fi])
            bd = set(itertools.accumulate([0] + [len(c) for c in ch]))
            for k in range(len(triple[fi])):
                if k not in bd: out.probe('truncation_inside_operand')
                variant(['trunc', fi, k], 'trunc')
    if sc.get('enum_over'):
        vals = sorted(set(R.OP.values())) + [0, 1, 31, 128, 255]
        for fi in range(3):
            for k in range(len(triple[fi])):
                for v in vals:
                    if v in R.NAME and triple[fi][k] != v: out.probe('flip_to_valid_opcode')
                    variant(['over', fi, k, v], 'over')
    if sc.get('binary'):
        _binary(triple, ok, out)
    return out


def _binary(triple, ok, out):
    import subprocess, tempfile
    from .. import rust
    exe = rust.build_checker()
    with tempfile.TemporaryDirectory(prefix='vb_') as d:
        names = []
        for i, b in enumerate(triple):
            p = os.path.join(d, 'f%d' % i)
            with open(p, 'wb') as f:
                f.write(b)
            names.append(p)
        r = subprocess.run([exe] + names, capture_output=True)
        out.probe('real_binary_run')
        out.event('binary', r.returncode)
        if (r.returncode == 0) != ok:
            out.violate('checker binary exit status == R1 verdict', 'C05|binary-exit', 'exit=%d R1=%s' % (r.returncode, ok))
        if not triple[1]:
            r2 = subprocess.run([exe, names[0], names[2]], capture_output=True)
            if (r2.returncode == 0) != ok:
                out.violate('checker binary (two-argument form) == R1 verdict', 'C05|binary-exit-2arg', 'exit=%d R1=%s' % (r2.returncode, ok))


def shrink(sc):
    """Candidates: single faults only; drop instruction chunks; no enumeration."""
    triple = [bytes.fromhex(sc[k]) for k in ('g', 'c', 'p')]
    base = dict(sc)
    if sc.get('enum_trunc') or sc.get('enum_over'):
        c = dict(base, enum_trunc=False, enum_over=False)
        yield c
        # the violation may live in an enumerated variant: try each as an explicit fault
        for fi in range(3):
            for k in range(len(triple[fi])):
                yield dict(base, enum_trunc=False, enum_over=False, faults=[['trunc', fi, k]])
        if sc.get('enum_over'):
            vals = sorted(set(R.OP.values())) + [0, 1, 31, 128, 255]
            for fi in range(3):
                for k in range(len(triple[fi])):
                    for v in vals:
                        yield dict(base, enum_trunc=False, enum_over=False, faults=[['over', fi, k, v]])
        return
    if sc['faults']:
        yield dict(base, faults=[])
    if len(sc['faults']) > 1:
        for f in sc['faults']:
            yield dict(base, faults=[f])
        return
    if sc['faults']:
        # bake the fault into the base triple
        vt, fired = F.apply(tuple(triple), sc['faults'][0])
        yield dict(base, faults=[], g=vt[0].hex(), c=vt[1].hex(), p=vt[2].hex())
    keys = ('g', 'c', 'p')
    for fi in (2, 1, 0):
        ch, _ = R.split(triple[fi])
        n = len(ch)
        span = n // 2
        while span >= 1:
            for i in range(0, n - span + 1, max(1, span)):
                nb = b''.join(ch[:i] + ch[i + span:])
                yield dict(base, **{keys[fi]: nb.hex()})
            span //= 2
    if sc.get('binary'):
        yield dict(base, binary=False)


def describe(sc):
    triple = [bytes.fromhex(sc[k]) for k in ('g', 'c', 'p')]

    def dis(b):
        out, pos = [], 0
        try:
            while pos < len(b):
                n, ops, pos = R.parse_one(b, pos)
                out.append(n + (' ' + ' '.join(map(str, ops)) if ops else ''))
        except T.Abort as e:
            out.append('<%s>' % e)
        return out
    return {'kind': sc['kind'], 'gamma': dis(triple[0]), 'claim': dis(triple[1]), 'proof': dis(triple[2])[:60],
            'explicit_faults': sc['faults'], 'all_truncations': sc.get('enum_trunc'), 'all_overwrites': sc.get('enum_over')}
