"""E-pipeline: generator -> files (SimFS) -> readers.

A proof module is composed with the real toolkit (sim/compose.py), serialised with the real
ProofExp.serialize through SimFS (binary and pretty, optimise off and on), and the emitted
files are handed to the real Rust checker, to R1, to the journal model R6 and to the
deserialiser.  Which oracles are active depends on the property (C02, C03, C14, C19)."""
from __future__ import annotations

import io
import itertools
from pathlib import PurePosixPath

from .. import terms as T
from .. import refmachine as R
from .. import bridge as B
from .. import compose as C
from ..core import Outcome
from ..simfs import SimFS

ISOLATE = True
LEVEL = 'exploration'
TRANSITION_MEASURE = '(library entry point or primitive rule, premise kinds) of accepted composition steps + (phase, instruction, top-of-stack shape) triples of R1 on the emitted files'
COMPONENTS = {'ProofExp.serialize / SerializingInterpreter / PrettyPrintingInterpreter / CountingInterpreter / MemoizingInterpreter / Propositional / Tautology': 'real',
              'file system': 'model (SimFS at the module-global open seam)', 'rust/src/lib.rs': 'real (harness)', 'documented machine': 'model R1',
              'declared-module journal': 'model R6'}
SHIPPED = ['Propositional', 'SmallTheory', 'Substitution', 'Tautology']


def prepare():
    from .. import rust
    rust.build_harness()
    rust.gc_builds()


def warmup(ctx):
    B.toolkit()
    import proof_generation.proof  # noqa
    import proof_generation.tautology  # noqa
    import proof_generation.proofs.small_theory  # noqa
    import proof_generation.proofs.substitution  # noqa
    import proof_generation.deserialize  # noqa
    ctx.harness


def gen_scenario(rng, tier, adversarial=False):
    r = rng.random()
    if r < 0.06:
        return {'shipped': rng.choice(SHIPPED)}
    return {'compose': rng.getrandbits(48), 'adversarial': adversarial}


def materialise(sc):
    """-> (module object, explicit recipe or None, declared dict for R6)"""
    if 'shipped' in sc:
        from proof_generation.proofs.propositional import Propositional
        from proof_generation.proofs.small_theory import SmallTheory
        from proof_generation.proofs.substitution import Substitution
        from proof_generation.tautology import Tautology
        cls = {'Propositional': Propositional, 'SmallTheory': SmallTheory, 'Substitution': Substitution, 'Tautology': Tautology}[sc['shipped']]
        return cls(), None
    if 'recipe' in sc:
        recipe = sc['recipe']
    else:
        recipe = C.compose(sc['compose'], sc.get('adversarial', False))
    b = C.build(recipe)
    global LAST_BUILDER
    LAST_BUILDER = b
    return b.main, recipe


LAST_BUILDER = None


def illformed_conclusion(mod):
    """Does the toolkit itself hold a term (axiom, claim or conclusion of a composed step) that is
    ill-formed by the documented judgement?  Such a term cannot be constructed by instructions."""
    terms = list(mod._axioms) + list(mod._claims)
    if LAST_BUILDER is not None:
        terms += [t.conc for t in LAST_BUILDER.pool if t is not None]
    for t in terms:
        try:
            if not T.wf_deep(B.py_expand(t)):
                return True
        except T.Abort:
            return True
    return False


def declared_of(mod):
    """R6: expected publication sequences, by an independent walk over the module graph:
    imported modules first (depth first, import order), then own axioms; first occurrence kept."""
    axioms = []

    def walk(m):
        for s in m._submodules:
            walk(s)
        for a in m._axioms:
            e = B.py_expand(a)
            if e not in axioms:
                axioms.append(e)
    walk(mod)
    claims = [B.py_expand(c) for c in mod._claims]
    return axioms, claims


def serialise(mod, fs, base, fmt, optimize):
    import proof_generation.proof as proof_mod
    from proof_generation.proof import OutputFormat
    saved = proof_mod.__dict__.get('open')
    proof_mod.open = fs.open
    try:
        mod.serialize(PurePosixPath(base), OutputFormat.Binary if fmt == 'binary' else OutputFormat.Pretty, optimize)
    finally:
        if saved is None:
            del proof_mod.open
        else:
            proof_mod.open = saved


def reason_class(msg):
    m = ''.join(ch for ch in msg if not ch.isdigit()).replace('  ', ' ').strip()
    if m.startswith('instantiation breaks'):
        return 'constraint|' + m.split()[2]
    if 'would capture' in m:
        return 'capture|' + m.split()[0]
    return m


def check_accept(triple, ctx, out, label, mod=None):
    """C02 oracle on one triple. Returns R1 machine (or None if rejected)."""
    ok, m, msg, at = R.verify(*triple)
    rw = ctx.harness.verify(*triple)
    out.ops += len(m.trace)
    for t in m.trace:
        out.transitions.add('%d/%s/%s/%s' % t)
    if not rw.accepted:
        if not ok:
            rc = reason_class(msg)
            if rc.startswith('ill-formed') and mod is not None and illformed_conclusion(mod):
                rc = 'toolkit-holds-ill-formed-term'
            sig = 'C02|rejected|' + rc
        else:
            sig = 'C02|rust-rejects-r1-accepts'
        out.violate('the checker accepts the serialisation of a module the toolkit accepted (%s)' % label, sig,
                    'rust panic=%r R1=%s %s at=%s sizes=%s' % (rw.panic, 'accept' if ok else 'reject', msg, at, [len(x) for x in triple]))
        return None
    if not ok:
        out.violate('R1 accepts what the checker accepts (%s)' % label, 'C02|r1-rejects-rust-accepts|' + reason_class(msg),
                    'R1: %s at=%s' % (msg, at))
        return None
    return m


def journal_check(m, axioms, claims, sm, out, label, discharge=True):
    """C03 oracle (R6 vs. R1 publish journal on the emitted files)."""
    pub = []
    for a in m.journal['axioms']:
        if a not in pub:
            pub.append(a)
    if len(pub) != len(axioms) or not all(B.unify(x, y, sm) for x, y in zip(axioms, pub)):
        out.violate('published axioms == declared axioms, in order (%s)' % label, 'C03|axioms',
                    'declared=%s published=%s' % ([B.show_ext(a) for a in axioms], [T.show(a) for a in pub]))
        return False
    pc = list(reversed(m.journal['claims']))
    if len(pc) != len(claims) or not all(B.unify(x, y, sm) for x, y in zip(claims, pc)):
        out.violate('published claims == declared claims, in order (%s)' % label, 'C03|claims',
                    'declared=%s published=%s' % ([B.show_ext(a) for a in claims], [T.show(a) for a in pc]))
        return False
    if discharge and m.journal['proved'] != pc:
        out.violate('the proof file discharges exactly the claims, in order (%s)' % label, 'C03|discharge',
                    'claims=%s discharged=%s' % ([T.show(a) for a in pc], [T.show(a) for a in m.journal['proved']]))
        return False
    return True


def describe(sc):
    if 'recipe' in sc:
        r = sc['recipe']

        def st(s):
            if s[0] == 'axiom': return 'axiom@m%d %s' % (s[1], B.show_ext(T.tup(s[2])))
            if s[0] == 'lib': return '%s(%s)' % (s[1], ', '.join(B.show_ext(T.tup(a[1])) if a[0] == 'p' else 'x%d' % a[1] if a[0] == 'v' else '#%d' % a[1] for a in s[2]))
            if s[0] == 'inst': return 'inst #%d {%s}' % (s[1], ', '.join('%d:%s' % (i, B.show_ext(T.tup(t))) for i, t in s[2]))
            if s[0] == 'taut': return 'prove_tautology %s' % B.show_ext(T.tup(s[1]))
            return ' '.join(str(x) for x in s)
        return {'lib': r['lib'], 'modules': [{'imports': m['imports'], 'axioms': [B.show_ext(T.tup(a)) for a in m['axioms']]} for m in r['modules']],
                'steps': ['#%d %s' % (i, st(s)) for i, s in enumerate(r['steps'])], 'claims': r['claims'], 'optimize': sc.get('optimize')}
    return sc


def shrink_recipe(sc):
    """Delta-debugging over an explicit recipe: fewer claims, dependency closure, simpler args."""
    if 'recipe' not in sc:
        return
    r = sc['recipe']
    steps, claims = r['steps'], r['claims']
    # one claim at a time
    if len(claims) > 1:
        for c in claims:
            yield _with(sc, r, steps, [c])
        for i in range(len(claims)):
            yield _with(sc, r, steps, claims[:i] + claims[i + 1:])
    # drop steps that no claim depends on, then try dropping single steps (renumbering)
    need = _closure(steps, claims)
    if len(need) < len(steps):
        yield _renumber(sc, r, sorted(need))
    for i in reversed(range(len(steps))):
        if i in claims:
            continue
        keep = [j for j in range(len(steps)) if j != i]
        if all(i not in _deps(steps[j]) for j in keep):
            yield _renumber(sc, r, keep)
    # drop axioms not loaded, drop modules' imports
    for mi, m in enumerate(r['modules']):
        for ai in range(len(m['axioms'])):
            mods = [dict(x) for x in r['modules']]
            mods[mi] = dict(m, axioms=m['axioms'][:ai] + m['axioms'][ai + 1:])
            yield dict(sc, recipe=dict(r, modules=mods))
    if r['lib'] == 'Tautology':
        yield dict(sc, recipe=dict(r, lib='Propositional'))
    # replace pattern arguments by atoms
    for si, s in enumerate(steps):
        if s[0] == 'lib':
            for ai, a in enumerate(s[2]):
                if a[0] == 'p' and T.tup(a[1])[0] not in ('m', 'e', 'y'):
                    for atom in (['m', 0, [], [], [], [], []], ['y', 0]):
                        ns = [list(x) for x in steps]
                        na = [list(x) for x in s[2]]
                        na[ai] = ['p', atom]
                        ns[si] = ['lib', s[1], na]
                        yield dict(sc, recipe=dict(r, steps=ns))


def _deps(s):
    if s[0] in ('mp',): return {s[1], s[2]}
    if s[0] in ('gen', 'inst', 'pinst'): return {s[1]}
    if s[0] == 'lib': return {a[1] for a in s[2] if a[0] == 't'}
    return set()


def _closure(steps, claims):
    need, todo = set(), list(claims)
    while todo:
        i = todo.pop()
        if i in need: continue
        need.add(i)
        todo += list(_deps(steps[i]))
    return need


def _with(sc, r, steps, claims):
    return dict(sc, recipe=dict(r, steps=steps, claims=claims))


def _renumber(sc, r, keep):
    ren = {old: new for new, old in enumerate(keep)}
    ns = []
    for old in keep:
        s = r['steps'][old]
        if s[0] == 'mp': s = ['mp', ren[s[1]], ren[s[2]]]
        elif s[0] in ('gen', 'inst', 'pinst'): s = [s[0], ren[s[1]]] + list(s[2:])
        elif s[0] == 'lib': s = ['lib', s[1], [a if a[0] in ('p', 'v') else ['t', ren[a[1]]] for a in s[2]]]
        ns.append(s)
    return dict(sc, recipe=dict(r, steps=ns, claims=[ren[c] for c in r['claims'] if c in ren]))
