"""C01 (E-machine): checker soundness.  The real Rust checker is stepped instruction by
instruction; after every instruction every *new* term it tags as proved is evaluated in
finite models (R2) on admissible concrete instances.  Stream faults (F1-F6 on the claim and
proof streams) give no relaxation: a corrupted stream is just another stream."""
import itertools
import random

from .. import terms as T
from .. import refmachine as R
from .. import faults as F
from .. import semantics as S
from ..core import Outcome
from ..gen_streams import StreamGen, valid_axiom_catalogue
from ..gen_patterns import Knobs

PROPERTY = 'C01'
ISOLATE = False
LEVEL = 'exploration'
TIERS = {'quick': {'runs': 9000, 'wall': 80, 'min_budget': 60}, 'thorough': {'runs': 1500000, 'wall': 1500, 'min_budget': 200}}
RULE = ('one run = one instruction-stream triple from the guided generator (empty theory or a theory of schemas valid in all models, re-checked by R2: propositional tautologies, '
        'exists-elimination with a freshness constraint, propagation of bottom/or/exists, pre-fixpoint with a positivity constraint, C[bot] -> bot with an application-context '
        'metavariable, existence; all orders of axiom schemas, Instantiate, ModusPonens, Generalization, Substitution (capturing plugs over-represented), Save/Load/Pop, Publish) plus '
        '0-4 faulted variants of its claim/proof streams; the real checker is stepped per instruction and every new Proved term on its stack is refuted-or-not by R2: 4 admissible '
        'concrete instances x 6 canonical + 3 seeded models (carriers 1-3) x all valuations (sampled above 48). Non-trivial = at least 3 distinct derived theorems checked; '
        'distinct = distinct event-log digests.')
TRANSITION_MEASURE = '(phase, instruction, kind:constructor of the top two stack entries) triples executed by R1 on the same streams'
COMPONENTS = {'rust/src/lib.rs': 'real (textual inclusion harness), stepped per instruction', 'matching-logic semantics': 'model R2 (finite models, carriers 1-3)',
              'instruction boundaries': 'R1.split (only to cut the stream into single instructions)'}
ASSUMPTIONS = ['validity in all models is approximated by 6 canonical separating models plus 3 seeded models per run, carriers <= 3 as the property states',
               'admissible instances are sampled (4 per theorem), constraints judged with textbook free-variable / polarity / application-context definitions']
PROBES = ['theorems_checked', 'schematic_theorem_checked', 'generalization_accepted', 'substitution_rule_applied', 'capture_refused_by_checker', 'instantiate_with_constraints',
          'valid_theory_axiom_used', 'faulted_variant_checked', 'mu_in_theorem', 'exists_in_theorem']


def prepare():
    from .. import rust
    rust.build_harness()
    rust.gc_builds()


def warmup(ctx):
    # the catalogue of "valid theory" schemas is itself re-checked by R2 before it is trusted
    rng = random.Random(12345)
    for ev in ([0, 1], [2, 3]):
        k = Knobs(rng); k.evars = ev; k.svars = [0, 1]
        for ax in valid_axiom_catalogue(rng, k):
            models = S.canonical_models([0, 1, 2]) + [S.random_model(rng, n, [0, 1, 2]) for n in (2, 2, 3, 3)]
            w = S.invalidity_witness(ax, rng, models, [0, 1, 2, 3], [0, 1, 2], [0, 1, 2], n_inst=12)
            if w is not None:
                raise AssertionError('catalogue schema refuted by R2: %s %s' % (T.show(ax), w))
    ctx.harness


def generate(rng, tier):
    g = StreamGen(rng, theory=rng.choice(['empty', 'valid', 'valid']), max_ops=rng.choice([8, 15, 30, 45]))
    g.w['subst'] = rng.choice([1, 3, 5]); g.w['gen'] = rng.choice([1, 3, 5]); g.w['junk'] = 0
    triple = g.build()
    bounds = []
    for b in triple:
        ch, _ = R.split(b)
        bounds.append(list(itertools.accumulate([0] + [len(c) for c in ch])))
    faults = []
    for _ in range(rng.choice([0, 0, 1, 2, 4])):
        f = F.sample(rng, triple, bounds, None)
        if f[0] == 'misroute' or f[1] == 0:
            continue
        faults.append(f)
    return {'g': triple[0].hex(), 'c': triple[1].hex(), 'p': triple[2].hex(), 'faults': faults, 'model_seed': rng.getrandbits(32),
            'evars': sorted(set(g.k.evars) | {0, 1}), 'svars': sorted(set(g.k.svars) | {0}), 'syms': sorted(set(g.k.syms) | {0})}


def check_triple(triple, sc, ctx, out, seen, label):
    chunks = [R.split(b)[0] for b in triple]
    rc = ctx.harness.run_chunks(chunks, every=True)
    rng = random.Random(sc['model_seed'])
    models = S.canonical_models(sc['syms']) + [S.random_model(rng, n, sc['syms']) for n in (2, 3, 3)]
    axioms = set()
    nchecked = 0
    for pi, ch in enumerate(chunks):
        for ci, c in enumerate(ch):
            d = rc.steps.get((pi, ci))
            if d is None:
                if rc.panic and 'capture' in rc.panic: out.probe('capture_refused_by_checker')
                return nchecked
            lines = d.split('\n')
            ns = int(lines[0].split()[1])
            name = R.NAME.get(c[0], '?')
            if pi == 0 and name == 'Publish':
                # the term just published is a gamma axiom: exempt (it is in the last memory line)
                nm = int(lines[1 + ns].split()[1])
                axioms.add(lines[1 + ns + nm][2:])
                continue
            if ns == 0:
                continue
            top = lines[ns]
            if not top.startswith('T:'):
                continue
            txt = top[2:]
            if txt in seen or txt in axioms:
                if txt in axioms: out.probe('valid_theory_axiom_used')
                continue
            seen.add(txt)
            t = T.parse(txt)
            nchecked += 1
            out.ops += 1
            out.probe('theorems_checked')
            if T.metavars(t): out.probe('schematic_theorem_checked')
            if '(M' in txt: out.probe('mu_in_theorem')
            if '(E' in txt: out.probe('exists_in_theorem')
            if name == 'Generalization': out.probe('generalization_accepted')
            if name == 'Substitution': out.probe('substitution_rule_applied')
            if name == 'Instantiate' and any(any(m[2:7]) for m in T.metavars(t)): out.probe('instantiate_with_constraints')
            w = S.invalidity_witness(t, rng, models, sc['evars'], sc['svars'], sc['syms'])
            out.event(label, pi, ci, name, bool(w))
            if w is not None:
                out.violate('every term the checker marks as proved is valid in every model', 'C01|%s|%s' % (w['kind'], name),
                            '%s: after phase %d instruction %d (%s) the checker holds the theorem %s; refutation: %s' % (label, pi, ci, name, txt, w))
                return nchecked
    return nchecked


def execute(sc, ctx):
    out = Outcome()
    triple = tuple(bytes.fromhex(sc[k]) for k in ('g', 'c', 'p'))
    seen = set()
    n = check_triple(triple, sc, ctx, out, seen, 'base')
    ok, m, msg, at = R.verify(*triple)
    for t in m.trace:
        out.transitions.add('%d/%s/%s/%s' % t)
    for f in sc['faults']:
        vt, fired = F.apply(triple, f)
        if not fired or out.violations:
            continue
        out.fault(f[0])
        out.klass = 'fault-injecting'
        out.probe('faulted_variant_checked')
        n += check_triple(vt, sc, ctx, out, seen, 'fault %s' % f[:3])
    out.nontrivial = n >= 3
    return out


def shrink(sc):
    if sc['faults']:
        yield dict(sc, faults=[])
        if len(sc['faults']) > 1:
            for f in sc['faults']:
                yield dict(sc, faults=[f])
        else:
            vt, fired = F.apply(tuple(bytes.fromhex(sc[k]) for k in ('g', 'c', 'p')), sc['faults'][0])
            yield dict(sc, faults=[], g=vt[0].hex(), c=vt[1].hex(), p=vt[2].hex())
        return
    keys = ('g', 'c', 'p')
    triple = [bytes.fromhex(sc[k]) for k in keys]
    for fi in (2, 1):
        ch, _ = R.split(triple[fi])
        n = len(ch)
        span = n // 2
        while span >= 1:
            for i in range(0, n - span + 1, max(1, span)):
                yield dict(sc, **{keys[fi]: b''.join(ch[:i] + ch[i + span:]).hex()})
            span //= 2
    # the theory must stay a *valid* theory: gamma is only shrunk by whole axioms
    # (the chunks up to and including a Publish), never inside one
    ch, _ = R.split(triple[0])
    groups, cur = [], []
    for c in ch:
        cur.append(c)
        if c and c[0] == R.OP['Publish']:
            groups.append(cur); cur = []
    if cur:
        groups.append(cur)
    for i in range(len(groups)):
        yield dict(sc, g=b''.join(b''.join(g) for j, g in enumerate(groups) if j != i).hex())


def describe(sc):
    from . import machine
    return machine.describe(dict(sc, kind='guided', enum_trunc=False, enum_over=False))
