"""C19: (sentence 2) the steps of the pretty-printed files correspond one to one, in order, to
the instructions of the binary files produced for the same module object in the same process
(history F9: binary/pretty interleaved, optimise on/off mixed); (sentence 1, artefact monitor)
every shipped notation renders the arguments its definition depends on."""
import re

from .pipeline import *  # noqa
from . import pipeline as _p
from .. import compose as C
from .. import terms as T
from .. import refmachine as R
from .. import bridge as B
from ..core import Outcome
from ..simfs import SimFS
from ..gen_patterns import Knobs
from ..gen_history import gen_ext

PROPERTY = 'C19'
TIERS = {'quick': {'runs': 260, 'wall': 85, 'min_budget': 60}, 'thorough': {'runs': 150000, 'wall': 1200, 'min_budget': 200}}
RULE = ('one run = one module object (C02 composer or shipped) serialised 2-4 times in one process in a seeded order of (format, optimise) jobs through SimFS; for every '
        '(binary, pretty) pair with the same optimise setting the pretty file is parsed into steps (instruction keyword line + continuation lines of constrained metavariables; '
        'tab-indented stack dumps skipped) and must name the same opcode sequence with the same scalar operands as the disassembly of the binary file, phase by phase, symbols under '
        'one injective map, Load lines naming the same slot. Monitor: 3 seeded shipped notations per run (propositional, definedness, Kore, nary_app, sorted/kore exists, forall) '
        'applied to seeded argument tuples with pairwise distinct renderings; applications differing at a definition-relevant position must render differently. '
        'Non-trivial = module with a rule/library step or shipped; distinct = distinct event-log digests.')
PROBES = ['pairs_compared', 'metavar_continuation_lines', 'load_line', 'optimised_pair', 'history_len_ge3', 'notation_pairs_checked', 'equiv_rendered', 'kore_quantifier_rendered', 'notation_nested_in_itself']
ASSUMPTIONS = ['sentence 1 is a pure function of a notation application: checked as a monitor with seeded arguments, not a simulation result']
COMPONENTS = dict(_p.COMPONENTS, **{'PrettyPrintingInterpreter, Notation.print_instantiation, proofs/kore.py, proofs/definedness.py notations': 'real'})

KEYWORDS = {'EVar', 'SVar', 'Symbol', 'MetaVar', 'Implies', 'App', 'Exists', 'Mu', 'ESubst', 'SSubst', 'Prop1', 'Prop2', 'Prop3', 'ModusPonens',
            'Quantifier', 'Generalization', 'Instantiate', 'Pop', 'Save', 'Load', 'Publish'}
LISTS = ['eFresh', 'sFresh', 'pos', 'neg', 'appctx']


def parse_pretty(text):
    """-> list of (opname, operands) or raises ValueError with the offending line."""
    steps = []
    lines = text.split('\n')
    i = 0
    while i < len(lines):
        ln = lines[i]
        i += 1
        if ln == '' or ln.startswith('\t'):
            continue
        kw = re.match(r'[A-Za-z0-9]+', ln)
        kw = kw.group(0) if kw else ''
        if ln.startswith('MetaVar '):
            m = re.match(r'MetaVar (\d+)(.*)$', ln)
            ident = int(m.group(1))
            rest = [m.group(2)]
            while i < len(lines) and any(lines[i].startswith(n + ', len=') for n in LISTS):
                rest.append(lines[i]); i += 1
            lists = {n: () for n in LISTS}
            for r in rest:
                if not r: continue
                mm = re.match(r'(\w+), len=(\d+) (.*)$', r)
                if not mm or mm.group(1) not in LISTS:
                    raise ValueError('unparsable metavar constraint line: %r' % r)
                items = mm.group(3).split()
                if len(items) != int(mm.group(2)):
                    raise ValueError('metavar list length mismatch: %r' % r)
                lists[mm.group(1)] = tuple(int(x[1:]) for x in items)
            steps.append(('MetaVar', (ident,) + tuple(lists[n] for n in LISTS)))
        elif kw in ('EVar', 'SVar', 'Exists', 'Mu', 'Generalization'):
            steps.append((kw, (int(ln.split(' ', 1)[1]),)))
        elif kw == 'Symbol':
            steps.append(('Symbol', (ln[len('Symbol '):],)))
        elif kw in ('ESubst', 'SSubst'):
            steps.append((kw, (int(ln.split('id=')[1]),)))
        elif kw == 'Instantiate':
            rest = ln[len('Instantiate '):].strip()
            keys = tuple(int(x) for x in rest.split(', ')) if rest else ()
            steps.append(('Instantiate', (tuple(reversed(keys)),)))     # the binary form lists the keys reversed
        elif kw == 'Load':
            steps.append(('Load', (int(ln.rsplit('=', 1)[1]),)))
        elif kw in KEYWORDS:
            if ln != kw:
                raise ValueError('trailing text on step line: %r' % ln)
            steps.append((kw, ()))
        else:
            raise ValueError('line is neither a step, a continuation nor a stack dump: %r' % ln[:80])
    return steps


def disassemble(buf):
    out, pos = [], 0
    while pos < len(buf):
        name, ops, pos = R.parse_one(buf, pos)
        if name == 'CleanMetaVar':
            name, ops = 'MetaVar', (ops[0], (), (), (), (), ())
        out.append((name, tuple(ops)))
    return out


def compare_steps(psteps, bsteps, sm):
    if len(psteps) != len(bsteps):
        # find first divergence for the report
        k = 0
        while k < min(len(psteps), len(bsteps)) and psteps[k][0] == bsteps[k][0]: k += 1
        return 'step count pretty=%d binary=%d; first divergence at %d: pretty=%s binary=%s' % (
            len(psteps), len(bsteps), k, psteps[k] if k < len(psteps) else None, bsteps[k] if k < len(bsteps) else None), 'count'
    for k, (p, b) in enumerate(zip(psteps, bsteps)):
        if p[0] != b[0]:
            return 'step %d: pretty %s, binary %s' % (k, p, b), 'opcode'
        if p[0] == 'Symbol':
            if not sm.bind(p[1][0], b[1][0]):
                return 'step %d: symbol %r printed for id %d breaks the injective symbol map' % (k, p[1][0], b[1][0]), 'symbol'
        elif p[1] != b[1]:
            return 'step %d: %s operands pretty=%s binary=%s' % (k, p[0], p[1], b[1]), 'operand|' + p[0]
    return None


def generate(rng, tier):
    sc = _p.gen_scenario(rng, tier)
    o = rng.random() < 0.5
    hist = rng.choice([
        [['binary', o], ['pretty', o]],
        [['pretty', o], ['binary', o]],
        [['binary', o], ['binary', not o], ['pretty', o]],
        [['pretty', o], ['binary', not o], ['binary', o], ['pretty', not o]],
        [['binary', not o], ['pretty', o], ['binary', o]],
    ])
    sc['history'] = hist
    sc['notation_seed'] = rng.getrandbits(40)
    sc['_tier'] = tier
    return sc


def notation_monitor(seed, out):
    import random
    from proof_generation.pattern import PrettyOptions, bot, neg, top, _and, _or, equiv, Symbol
    from proof_generation.proofs import definedness as D, kore as K
    from proof_generation.proofs.substitution import forall
    rng = random.Random(seed)
    v = rng.choice([0, 1, 3])
    cat = [neg, _and, _or, equiv, D.ceil, D.floor, D.subset, D.equals, D.functional, K.in_sort, K.sorted_exists(v), K.kore_top, K.kore_not,
           K.kore_and, K.kore_or, K.kore_next, K.kore_implies, K.kore_rewrites, K.kore_dv, K.kore_ceil, K.kore_floor, K.kore_iff, K.kore_equals,
           K.kore_kseq, K.kore_in, K.kore_bottom, K.kore_exists(v), forall(v), K.nary_app(Symbol('f'), rng.randint(1, 4)),
           K.nary_app(Symbol('cell'), rng.randint(1, 3), True)]
    k = Knobs(rng)
    k.p_illformed = 0.0; k.p_meta = 0.15
    for nt in rng.sample(cat, 3):
        opts = PrettyOptions(notations={n.definition: n for n in cat + [bot, top]})
        relevant = sorted(nt.definition.metavars())
        if not relevant:
            continue
        # a base tuple plus, for every definition-relevant position, a variant that differs only there
        base_args = [B.to_py(gen_ext(rng, k, rng.randint(0, 2), 0.3)) for _ in range(nt.arity)]
        tuples = [base_args]
        for i in relevant:
            for _ in range(4):
                alt = B.to_py(gen_ext(rng, k, rng.randint(0, 2), 0.3))
                if alt.pretty(opts) != base_args[i].pretty(opts):
                    tuples.append(base_args[:i] + [alt] + base_args[i + 1:])
                    break
        tuples.append([B.to_py(gen_ext(rng, k, rng.randint(0, 2), 0.3)) for _ in range(nt.arity)])
        if len(relevant) >= 2:
            # the notation nested in itself, to the left and to the right: N(N(a, b), c) and N(a, N(b, c))
            i, j = rng.sample(relevant, 2)
            abc = []
            for _ in range(12):
                t = B.to_py(gen_ext(rng, k, rng.randint(0, 1), 0.3))
                if all(t.pretty(opts) != u.pretty(opts) for u in abc):
                    abc.append(t)
                if len(abc) == 3:
                    break
            if len(abc) == 3:
                def at(x, y):
                    l = list(base_args); l[i] = x; l[j] = y
                    return l
                a_, b_, c_ = abc
                tuples.append(at(nt(*at(a_, b_)), c_))
                tuples.append(at(a_, nt(*at(b_, c_))))
                out.probe('notation_nested_in_itself')
        rend = []
        for args in tuples:
            try:
                rend.append((tuple(a.pretty(opts) for a in args), nt(*args).pretty(opts)))
            except Exception as e:
                out.violate('a shipped notation can be rendered', 'C19|notation|render-raises|' + nt.label, '%s: %s' % (type(e).__name__, e))
                return
        if nt.label == 'equiv': out.probe('equiv_rendered')
        if nt.label in ('sorted-exists', 'kore-exists'): out.probe('kore_quantifier_rendered')
        for a in range(len(rend)):
            for b in range(a + 1, len(rend)):
                ra, rb = rend[a], rend[b]
                if any(ra[0][i] != rb[0][i] for i in relevant):
                    out.probe('notation_pairs_checked')
                    if ra[1] == rb[1]:
                        out.violate('applications of one notation whose arguments print differently are printed differently',
                                    'C19|notation|drops-arguments|' + nt.label,
                                    'notation %s (format %r): arguments %s and %s both render as %r' % (nt.label, nt.format_str, ra[0], rb[0], ra[1]))
                        return


def execute(sc, ctx):
    out = Outcome()
    notation_monitor(sc['notation_seed'], out)
    try:
        mod, recipe = _p.materialise(sc)
    except C.Refused as e:
        out.refused = True
        out.event('refused-at-build', str(e)[:80])
        return out
    if recipe is not None:
        out.explicit = dict(sc, recipe=recipe)
        out.explicit.pop('compose', None)
        out.nontrivial = any(s[0] in ('lib', 'mp', 'inst', 'gen', 'taut') for s in recipe['steps'])
    else:
        out.nontrivial = True
    fs = SimFS()
    done = {}
    cap = 9000 if sc.get('_tier') == 'thorough' else 5000      # the pretty printer dumps the whole stack per step: quadratic output, minutes and gigabytes beyond this
    # size gate on a *separately built* twin (no history added to the module under test)
    try:
        twin, _ = _p.materialise(dict(sc, recipe=recipe) if recipe is not None else sc)
        pfs = SimFS()
        _p.serialise(twin, pfs, '/sim/probe', 'binary', False)
        if sum(len(x) for x in pfs.triple('/sim/probe')) > cap:
            out.event('module too large for this tier: not judged')
            out.nontrivial = False
            return out
    except Exception:
        pass
    if len(sc['history']) >= 3: out.probe('history_len_ge3')
    for ji, (fmt, opt) in enumerate(sc['history']):
        base = '/sim/job%d' % ji
        try:
            _p.serialise(mod, fs, base, fmt, opt)
        except Exception as e:
            out.refused = True
            out.event('refused-at-serialise', ji, fmt, opt, type(e).__name__)
            return out
        done.setdefault(opt, {})[fmt] = base
        size = sum(len(fs.content(p)) for p in fs.opened if p.startswith(base + '.'))
        out.event('job', ji, fmt, opt, size)
        if fmt == 'binary' and size > cap:
            out.event('module too large for this tier: not judged')
            out.nontrivial = False
            return out
    for opt, d in sorted(done.items()):
        if 'binary' not in d or 'pretty' not in d:
            continue
        out.probe('pairs_compared')
        if opt: out.probe('optimised_pair')
        sm = B.SymMap()
        for ph, suf in enumerate(('gamma', 'claim', 'proof')):
            btext = fs.content('%s.ml-%s' % (d['binary'], suf))
            ptext = fs.content('%s.pretty-%s' % (d['pretty'], suf)).decode('utf-8')
            try:
                bsteps = disassemble(btext)
            except T.Abort as e:
                out.event('binary does not disassemble (C02 territory)', str(e))
                break
            try:
                psteps = parse_pretty(ptext)
            except ValueError as e:
                out.violate('every line of a pretty file is a step, a continuation line or a stack dump', 'C19|steps|unparsable-line', '%s phase: %s' % (suf, e))
                break
            out.ops += len(bsteps)
            for s in bsteps:
                out.transitions.add('%d/%s' % (ph, s[0]))
            if any(s[0] == 'MetaVar' and any(s[1][1:]) for s in psteps): out.probe('metavar_continuation_lines')
            if any(s[0] == 'Load' for s in psteps): out.probe('load_line')
            bad = compare_steps(psteps, bsteps, sm)
            if bad:
                out.violate('pretty steps == binary instructions, one to one, in order', 'C19|steps|' + bad[1],
                            '%s phase, optimise=%s, history=%s: %s' % (suf, opt, sc['history'], bad[0]))
                break
    return out


def shrink(sc):
    if len(sc['history']) > 2:
        for i in range(len(sc['history'])):
            yield dict(sc, history=sc['history'][:i] + sc['history'][i + 1:])
    yield from _p.shrink_recipe(sc)
