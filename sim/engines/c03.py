"""C03: the published theory and claims are exactly what was declared (R6 journal vs R1 on the
emitted files), plus the id-space exhaustion fault class F7."""
from .pipeline import *  # noqa
from . import pipeline as _p
from . import c02 as _c02
from .. import compose as C
from .. import terms as T
from ..core import Outcome
from ..simfs import SimFS

PROPERTY = 'C03'
TIERS = {'quick': {'runs': 900, 'wall': 80, 'min_budget': 60}, 'thorough': {'runs': 200000, 'wall': 1200, 'min_budget': 200}}
RULE = ('same module compositions as C02 (import graphs with diamonds, duplicate axioms across modules, notation in axioms and claims, 1-8 claims), both optimise settings; '
        'R1 executes the emitted gamma/claim/proof files and its publish journal must equal the declaration walked independently (imported modules first, first occurrence kept), '
        'claims in declaration order, one discharge per claim, under ONE injective symbol name<->number map per triple. Fault class F7 (12% of runs): modules that need more than '
        '256 symbols / a variable or metavariable id above 255 / a constraint list longer than 255 / more than 256 memory slots: serialisation must raise, never wrap around. '
        'Non-trivial = at least 2 published axioms or 2 claims or an F7 module; distinct = distinct event-log digests.')
PROBES = ['claims_ge2', 'import_depth_ge2', 'diamond_import', 'notation_in_claim', 'optimized_differs', 'f7_refused', 'axioms_ge3', 'symbol_id_ge128', 'grown_axiom_in_main', 'grown_axiom_in_submodule', 'grown_claim', 'grown_import']
ASSUMPTIONS = _c02.ASSUMPTIONS + ['order of publication across modules: imported modules before the importing one, depth first (the property only says "in order")']


def generate(rng, tier):
    if rng.random() < 0.12:
        kind = rng.choice(['symbols', 'symbols', 'evar_id', 'metavar_id', 'constraints', 'memory', 'symbols_ok'])
        n = {'symbols': rng.choice([257, 258, 300, 513]), 'symbols_ok': rng.choice([129, 200, 256]), 'evar_id': rng.choice([256, 257, 300, 511, 512]),
             'metavar_id': rng.choice([256, 300, 512]), 'constraints': rng.choice([256, 257, 300]), 'memory': rng.choice([257, 260, 300])}[kind]
        return {'f7': kind, 'n': n, 'optimize': rng.random() < 0.5, 'order': [False], '_tier': tier}
    return _c02.generate(rng, tier)


def f7_module(kind, n):
    from proof_generation.proof import ProofExp
    from proof_generation.pattern import App, EVar, Implies, MetaVar, Symbol, SVar
    if kind in ('symbols', 'symbols_ok'):
        axioms = []
        for i in range(0, n, 16):
            t = Symbol('sym%d' % i)
            for j in range(i + 1, min(n, i + 16)):
                t = App(t, Symbol('sym%d' % j))
            axioms.append(t)
        mod = ProofExp(axioms=axioms)
        ax = axioms[-1]
    elif kind == 'evar_id':
        ax = Implies(EVar(n), EVar(n % 256))
        mod = ProofExp(axioms=[ax, EVar(n % 256)])
    elif kind == 'metavar_id':
        ax = Implies(MetaVar(n), MetaVar(n % 256))
        mod = ProofExp(axioms=[ax])
    elif kind == 'constraints':
        ax = MetaVar(0, e_fresh=tuple(EVar(i % 200) for i in range(n)))
        mod = ProofExp(axioms=[ax])
    else:  # memory: more published axioms than one byte can index, the last one is loaded
        axioms = [App(Symbol('f'), EVar(i % 250)) if i < 250 else App(App(Symbol('g'), EVar(i % 250)), EVar(1)) for i in range(n)]
        mod = ProofExp(axioms=axioms)
        ax = axioms[-1]
    mod.add_claim(ax)
    mod.add_proof_expression(mod.load_axiom(ax))
    return mod


def execute(sc, ctx):
    if 'f7' not in sc:
        out = _c02.execute(sc, ctx, want=('C03',))
        return out
    out = Outcome()
    out.klass = 'fault-injecting'
    out.nontrivial = True
    mod = f7_module(sc['f7'], sc['n'])
    axioms, claims = _p.declared_of(mod)
    fs = SimFS()
    try:
        _p.serialise(mod, fs, '/sim/f7', 'binary', sc['optimize'])
    except Exception as e:
        out.fault('id_space_exhaustion')
        out.probe('f7_refused')
        out.event('f7-refused', sc['f7'], sc['n'], type(e).__name__)
        return out
    triple = fs.triple('/sim/f7')
    if sc['f7'] != 'symbols_ok':
        out.fault('id_space_exhaustion')
    ok, m, msg, at = _p.R.verify(*triple)
    out.event('f7-serialised', sc['f7'], sc['n'], ok)
    if any(t[1] == 'Symbol' for t in m.trace) and sc['n'] >= 129: out.probe('symbol_id_ge128')
    if not ok:
        out.violate('an unencodable module is refused, an encodable one yields a well-formed triple', 'C03|f7|emitted-but-rejected|' + sc['f7'],
                    'serialisation did not raise, R1 rejects the files: %s' % msg)
        return out
    _p.journal_check(m, axioms, claims, _p.B.SymMap(), out, 'f7 %s n=%d' % (sc['f7'], sc['n']))
    for v in out.violations:
        v['signature'] = 'C03|f7|silently-ambiguous|' + sc['f7']
    return out


def shrink(sc):
    if 'f7' in sc:
        for n in (256, 257, 258):
            if n < sc['n']:
                yield dict(sc, n=n)
        return
    yield from _c02.shrink(sc)
