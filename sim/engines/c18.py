"""C18 (E-process, the archetypal case): output is a deterministic function of the input.
Reference execution: the target alone in a pristine interpreter (PYTHONHASHSEED=0, ASLR off,
no heap noise).  Simulated executions: the same target in interpreters with seeded hash seed
(F8), seeded heap noise (F10), after a seeded history of earlier jobs in the same process (F9),
some of which failed half-way on a write error (F11).  All six files must be byte-identical."""
import random

from .. import mm_ref as M
from ..core import Outcome
from . import c16 as _c16

PROPERTY = 'C18'
ISOLATE = False
LEVEL = 'exploration'
TIERS = {'quick': {'runs': 260, 'wall': 85, 'min_budget': 60}, 'thorough': {'runs': 30000, 'wall': 1500, 'min_budget': 200}}
RULE = ('one run = one target (a proof module composed by the C02 composer, a shipped module, or a generated / shipped Metamath database) serialised to binary and pretty with a seeded '
        'optimise setting: once as reference in a pristine interpreter (hash seed 0, no history, no heap noise) and 3 times in interpreters with seeded hash seed, seeded heap-noise '
        'prelude and a seeded history of 0-4 earlier jobs in the same process (other modules/databases, the target object itself serialised 1-3 times, binary/pretty and optimise '
        'mixed, jobs aborted by a write error at a seeded byte of a seeded file). The six files of every simulated execution must equal the reference byte for byte. '
        'Non-trivial = history of length >= 1 or hash seed != 0; distinct = distinct event-log digests.')
TRANSITION_MEASURE = '(target kind, hash seed class, history shape (kinds, same-object, failed-write), optimise) tuples'
COMPONENTS = {'ProofExp.serialize, CountingInterpreter, MemoizingInterpreter, Serializing/PrettyPrinting interpreters, metamath translate/converter/parser': 'real, fresh interpreter per execution (setarch -R)',
              'file system': 'model (SimFS with write faults)'}
ASSUMPTIONS = ['translate.main itself (argparse/pathlib shell) is replaced by an equivalent in-memory skeleton; the real main is exercised by C16 on a sample']
PROBES = ['history_len_ge2', 'failed_write_in_history', 'same_object_in_history', 'hashseed_nonzero', 'mm_target', 'module_target', 'shipped_target', 'mm_target_mvars_ge2', 'pretty_compared', 'k_target']
SHIPPED_MODS = ['Propositional', 'SmallTheory', 'Substitution']
SHIPPED_MM = ['impreflex-compressed-goal.mm']


def generate(rng, tier):
    r = rng.random()
    if r < 0.38:
        target = {'kind': 'module', 'compose': rng.getrandbits(48)}
    elif r < 0.45:
        target = {'kind': 'module', 'ties': {'n': rng.choice([4, 6, 8, 10]), 'salt': rng.randrange(100000)}}
    elif r < 0.53:
        target = {'kind': 'module', 'shipped': rng.choice(SHIPPED_MODS)}
    elif r < 0.76:
        target = {'kind': 'mm', 'gen_seed': rng.getrandbits(40)}
    elif r < 0.93:
        target = {'kind': 'k', 'k_seed': rng.getrandbits(40)}
    else:
        target = {'kind': 'mm', 'shipped_mm': rng.choice(SHIPPED_MM)}
    execs = []
    for _ in range(3):
        hist = []
        for _ in range(rng.choice([0, 1, 1, 2, 3, 4])):
            k = rng.random()
            if k < 0.3:
                h = {'same': True}
            elif k < 0.6:
                h = {'spec': {'kind': 'module', 'compose': rng.getrandbits(48)}}
            elif k < 0.75:
                h = {'spec': {'kind': 'module', 'shipped': rng.choice(SHIPPED_MODS)}}
            else:
                h = {'spec': {'kind': 'mm', 'gen_seed': rng.getrandbits(40)}}
            h['fmt'] = rng.choice(['binary', 'pretty'])
            h['optimize'] = rng.random() < 0.5
            h['times'] = rng.choice([1, 1, 2, 3])
            if rng.random() < 0.3:
                h['fail_at'] = rng.choice([0, 1, 7, 30, 100, 400])
                h['fail_file'] = rng.choice(['gamma', 'claim', 'proof'])
            hist.append(h)
        execs.append({'hashseed': rng.choice([0, 1, 2, 3, 5, 7, 11, 13]), 'noise': rng.choice([0, 1, 17, 1000, 4099]), 'history': hist})
    opt = rng.random() < 0.6
    return {'target': target, 'optimize': opt or 'ties' in target, 'execs': execs, '_tier': tier}


CAP = [2500]


def resolve(spec, ctx, cache):
    """Make a spec explicit (recipe / database text) -- done once, outside the processes under test."""
    key = repr(sorted(spec.items()))
    if key in cache:
        return cache[key]
    out = dict(spec)
    if spec['kind'] == 'module' and 'compose' in spec:
        r = ctx.ask(0, {'op': 'compose', 'seed': spec['compose'], 'cap': CAP[0]})
        if 'error' in r:
            out = None
        else:
            out = {'kind': 'module', 'recipe': r['recipe']}
    elif spec['kind'] == 'mm' and 'gen_seed' in spec:
        layouts, _, _, info = _c16.build({'gen_seed': spec['gen_seed']})
        lay = layouts[spec['gen_seed'] % len(layouts)]
        out = {'kind': 'mm', 'text': ambiguous_variables(lay['text'], spec['gen_seed']), 'target': 'goal', 'tmv': info['tmv']}
    elif spec['kind'] == 'k' and 'k_seed' in spec:
        import random as _r
        from . import c20 as _c20
        ksc = _c20.generate(_r.Random(spec['k_seed']), 'quick')
        ksc['faults'] = []
        # as a serialisation target the whole trace should be built: every symbol functional (a non-functional substitution
        # value is refused by the front end and build_pe stops there)
        ksc['symbols'] = [dict(s, functional=True) for s in ksc['symbols']]
        out = {'kind': 'k', 'scenario': ksc}
    elif spec['kind'] == 'mm' and 'shipped_mm' in spec:
        import os
        from ..paths import REPO
        out = {'kind': 'mm', 'text': open(os.path.join(REPO, 'generation', 'mm-benchmarks', spec['shipped_mm'])).read(), 'target': 'goal', 'tmv': 1}
    cache[key] = out
    return out


def ambiguous_variables(text, seed):
    """A third of the generated databases also declare two or three `#Variable` variables (element-or-set: the converter
    resolves them per statement, over a *set* of names) and one or two axioms that mention several of them."""
    import random as _r
    rng = _r.Random(seed ^ 0xa5a5a5)
    if rng.random() >= 0.34 or '\\imp' not in text:
        return text
    names = rng.sample(['xX', 'yY', 'zZ', 'aA', 'wW', 'Bb'], rng.choice([2, 3]))
    lines = ['$c #Variable $.', '$v ' + ' '.join(names) + ' $.'] + ['%s-is-var $f #Variable %s $.' % (n, n) for n in names]
    lines.append('var-is-pattern $a #Pattern %s $.' % names[0])
    for k in range(rng.choice([1, 2])):
        vs = [rng.choice(names) for _ in range(3)]
        if len(set(vs)) < 2: vs[1] = next(n for n in names if n != vs[0])
        lines.append('amb-ax-%d $a |- ( \\imp %s ( \\imp %s %s ) ) $.' % (k, vs[0], vs[1], vs[2]))
    head, sep, tail = text.rpartition('goal $p')
    return head + '\n'.join(lines) + '\n' + sep + tail


def execute(sc, ctx):
    out = Outcome()
    cache = {}
    CAP[0] = 20000 if sc.get('_tier') == 'thorough' else 2500
    target = sc['target'] if ('recipe' in sc['target'] or 'text' in sc['target'] or 'scenario' in sc['target'] or 'ties' in sc['target']) else resolve(sc['target'], ctx, cache)
    if target is None:
        out.refused = True
        out.event('target could not be composed')
        return out
    execs = []
    for e in sc['execs']:
        hist = []
        for h in e['history']:
            if h.get('same'):
                hist.append(h)
            else:
                sp = h['spec'] if ('recipe' in h['spec'] or 'text' in h['spec'] or 'shipped' in h['spec']) else resolve(h['spec'], ctx, cache)
                if sp is not None:
                    hist.append(dict(h, spec=sp))
        execs.append(dict(e, history=hist))
    out.explicit = {'target': target, 'optimize': sc['optimize'], 'execs': execs}
    kind = 'mm' if target['kind'] == 'mm' else 'k' if target['kind'] == 'k' else ('shipped' if 'shipped' in target else 'module')
    out.probe({'mm': 'mm_target', 'shipped': 'shipped_target', 'module': 'module_target', 'k': 'k_target'}[kind])
    if target.get('tmv', 0) >= 2: out.probe('mm_target_mvars_ge2')
    job = {'op': 'serialise', 'target': target, 'formats': ['binary', 'pretty'], 'optimize': sc['optimize'], 'history': [], 'noise': 0}
    ref = ctx.ask(0, job)
    out.ops += 1
    if 'error' in ref:
        out.refused = True
        out.event('reference refused', ref['error'])
        # a refusal must be deterministic too
        for e in execs[:1]:
            r = ctx.ask(e['hashseed'], dict(job, noise=e['noise']))
            if 'error' not in r or r['error'] != ref['error']:
                out.violate('a target refused in the reference execution is refused the same way under another hash seed', 'C18|refusal-differs',
                            'reference: %s; hashseed %d: %s' % (ref['error'], e['hashseed'], r.get('error', 'succeeded')))
        return out
    out.event('reference', {f: {s: len(v) // 2 for s, v in d.items()} for f, d in ref['files'].items()})
    out.probe('pretty_compared')
    for ei, e in enumerate(execs):
        j = dict(job, history=e['history'], noise=e['noise'], same_object_in_history=any(h.get('same') for h in e['history']))
        out.fault('hashseed'); out.fault('heap_noise' if e['noise'] else 'no_noise')
        if e['hashseed'] != 0: out.probe('hashseed_nonzero')
        if len(e['history']) >= 2: out.probe('history_len_ge2')
        if any(h.get('same') for h in e['history']): out.probe('same_object_in_history')
        r = ctx.ask(e['hashseed'], j)
        out.ops += 1
        shape = ','.join(('S' if h.get('same') else h['spec']['kind'][0]) + h['fmt'][0] + ('o' if h['optimize'] else '') + ('!' if h.get('fail_at') is not None else '') for h in e['history'])
        out.transitions.add('%s/%s/%s/%s' % (kind, 'h0' if e['hashseed'] == 0 else 'hN', shape, sc['optimize']))
        if e['history'] or e['hashseed'] != 0: out.nontrivial = True
        if 'error' in r:
            out.event(ei, 'error', r['error'])
            out.violate('the target serialises in the simulated execution as it did in the reference execution', 'C18|raises-after-history|' + r['error'],
                        'exec %d (hashseed %d, history %s): %s' % (ei, e['hashseed'], shape, r.get('trace', r.get('message', ''))[-800:]))
            return out
        if r.get('faults_fired'):
            out.fault('failed_write', r['faults_fired']); out.probe('failed_write_in_history')
        out.event(ei, e['hashseed'], e['noise'], shape, r.get('history_log'))
        for fmt in ('binary', 'pretty'):
            for s in ('gamma', 'claim', 'proof'):
                if r['files'][fmt][s] != ref['files'][fmt][s]:
                    cause = 'history' if e['history'] else ('hashseed' if e['hashseed'] != 0 else 'noise')
                    out.violate('all six output files are byte-identical to the reference execution', 'C18|output-differs|%s|%s' % (kind, cause),
                                'exec %d: hashseed=%d noise=%d history=[%s]: %s-%s differs (%d vs %d bytes)' % (
                                    ei, e['hashseed'], e['noise'], shape, fmt, s, len(r['files'][fmt][s]) // 2, len(ref['files'][fmt][s]) // 2))
                    return out
    return out


def shrink(sc):
    if 'execs' not in sc:
        return
    if len(sc['execs']) > 1:
        for e in sc['execs']:
            yield dict(sc, execs=[e])
        return
    e = sc['execs'][0]
    for i in range(len(e['history'])):
        yield dict(sc, execs=[dict(e, history=e['history'][:i] + e['history'][i + 1:])])
    if e['noise']:
        yield dict(sc, execs=[dict(e, noise=0)])
    for h0 in (0, 1, 2, 3):
        if h0 < e['hashseed']:
            yield dict(sc, execs=[dict(e, hashseed=h0)])
    for i, h in enumerate(e['history']):
        if h.get('fail_at') is not None:
            hh = dict(h); hh.pop('fail_at'); hh.pop('fail_file', None)
            yield dict(sc, execs=[dict(e, history=e['history'][:i] + [hh] + e['history'][i + 1:])])
        if h.get('times', 1) > 1:
            yield dict(sc, execs=[dict(e, history=e['history'][:i] + [dict(h, times=1)] + e['history'][i + 1:])])


def describe(sc):
    def sp(s):
        if 'text' in s: return {'kind': 'mm', 'text': s['text'].split('\n')[-6:]}
        if 'scenario' in s: return {'kind': 'k', 'rules': len(s['scenario']['rules']), 'events': len(s['scenario']['events'])}
        if 'recipe' in s: return {'kind': 'module', 'steps': len(s['recipe']['steps']), 'lib': s['recipe']['lib']}
        return s
    d = {'target': sp(sc['target']), 'optimize': sc.get('optimize')}
    d['execs'] = [{'hashseed': e['hashseed'], 'noise': e['noise'], 'history': [dict(h, spec=sp(h['spec'])) if 'spec' in h else h for h in e['history']]} for e in sc.get('execs', [])]
    return d
