"""C15 (E-process): compressed-proof decoding by the real converter, run as fresh interpreters
under seeded hash seeds, against the Appendix-B codec R4."""
import random

from .. import mm_ref as M
from ..core import Outcome

PROPERTY = 'C15'
ISOLATE = False
LEVEL = 'exploration'
TIERS = {'quick': {'runs': 500, 'wall': 80, 'min_budget': 40}, 'thorough': {'runs': 60000, 'wall': 1200, 'min_budget': 120}}
RULE = ('one run = one generated database (2-5 $f variables declared in an order different from name order, constructors, notations, rules) whose target statement uses a seeded '
        'subset of 0-5 variables in seeded textual order, with a synthetic compressed proof: seeded label list (possibly empty), step numbers concentrated on the code-length '
        'boundaries 20/21, 120/121, 620/621, 3120/3121, 15620/15621 and uniform up to 10^6, Z after seeded steps, seeded whitespace/line layout; the real parse_database + '
        'MetamathConverter run in fresh interpreters under 6-8 different PYTHONHASHSEED values; Lemma.proof.labels / .applied_lemmas must equal R4 (mandatory hypotheses in '
        'database order, then listed labels; Z recorded after the preceding step) under every seed. Non-trivial = target with >= 2 mandatory variables or >= 8 steps; distinct = distinct event-log digests.')
TRANSITION_MEASURE = '(number of mandatory variables, code length class of the largest step number, Z used, label list empty) tuples'
COMPONENTS = {'metamath/parser.py, metamath/converter/*': 'real, fresh interpreter per hash seed', 'Appendix-B codec': 'model R4'}
ASSUMPTIONS = ['numbers are sampled: all code-length boundaries every second run, ~20 further numbers per run, and in every second run one seeded block of 1000 consecutive numbers; '
               'coverage.covered_sets.number_blocks reports how many of the 1000 blocks that partition 1..10^6 were decoded completely in this batch (the thorough tier reaches all of them with '
               'overwhelming probability, the quick tier about a fifth); the placement of Z and the label lists are sampled']
COVER_SETS = {'number_blocks': (1000, 'blocks [1000b+1, 1000b+1000] of step numbers, every number of which was encoded by R4, decoded by the real converter under every hash seed of the run and came back as itself')}
PROBES = ['mandatory_ge2', 'mandatory_ge3', 'empty_label_list', 'z_used', 'number_ge_621', 'number_ge_15621', 'multi_line_layout', 'same_proof_text_twice']
BOUNDARIES = [1, 19, 20, 21, 22, 39, 40, 41, 119, 120, 121, 122, 140, 141, 619, 620, 621, 622, 3119, 3120, 3121, 15619, 15620, 15621, 78120, 78121, 390620, 390621, 999999, 1000000]


def generate(rng, tier):
    seed = rng.getrandbits(40)
    return {'gen_seed': seed, 'hashseeds': sorted(rng.sample(range(16), rng.choice([6, 8])))}


def build(sc):
    """Deterministic from gen_seed (toolkit-free): database text + expected decoding."""
    rng = random.Random(sc['gen_seed'])
    g = M.Gen(rng, nvars=rng.choice([2, 3, 4, 5]))
    db = g.db
    nt = rng.choice([0, 1, 2, 2, 3, 3, 4, 5])
    tvs = rng.sample(db.vars, min(nt, len(db.vars)))
    rng.shuffle(tvs)
    # a target that mentions exactly tvs, in that textual order
    if not tvs:
        target = g.term(2, ground=True)
    else:
        target = ('v', tvs[-1])
        for v in reversed(tvs[:-1]):
            target = ('\\imp', ('v', v), target)
        if len(tvs) == 1:
            target = ('\\imp', target, target)
    if target[0] == 'v':
        target = ('\\imp', target, target)
    all_labels = [l for l in db.order] + [l for l, _ in db.floats]
    mand = [l for l, _ in db.mandatory_floats([target])]
    others = [l for l in all_labels if l not in mand]
    labels = rng.sample(others, rng.choice([0, 0, 1, 2, 4, min(6, len(others))]))
    nums = []
    for _ in range(rng.randint(1, 40)):
        r = rng.random()
        if r < 0.45: nums.append(rng.randint(1, max(1, len(mand) + len(labels))))
        elif r < 0.8: nums.append(rng.choice(BOUNDARIES))
        else: nums.append(rng.randint(1, 10 ** 6))
    if rng.random() < 0.5:
        nums += BOUNDARIES
    block = None
    if rng.random() < 0.5:      # one block of 1000 consecutive numbers: the blocks partition 1..10^6
        block = rng.randrange(1000)
        nums += list(range(block * 1000 + 1, block * 1000 + 1001))
    letters = ''
    expected_applied = []
    for n in nums:
        letters += M.encode_number(n)
        expected_applied.append(n)
        if rng.random() < 0.2:
            letters += 'Z'
            expected_applied.append(0)
    db.target = ('goal', target, None)
    decoy = False
    if rng.random() < 0.3:
        # an earlier theorem with the same proof text over other (or the same, reordered) variables: its label table differs
        dvs = rng.sample(db.vars, rng.randint(1, min(3, len(db.vars))))
        dt = ('v', dvs[-1])
        for v in reversed(dvs[:-1]):
            dt = ('\\imp', ('v', v), dt)
        dt = ('\\imp', dt, dt)
        if dt != target:
            db.decoys = [('decoy', dt)]
            decoy = True
    layout_rng = random.Random(sc['gen_seed'] ^ 0x5a5a) if rng.random() < 0.6 else None
    text = db.text(['('] + labels + [')'] + ([letters] if letters else []), layout_rng=layout_rng)
    expected_labels = {str(i + 1): l for i, l in enumerate(mand + labels)}
    return text, expected_labels, expected_applied, {'mand': len(mand), 'maxn': max(nums), 'z': 'Z' in letters, 'empty': not labels, 'layout': layout_rng is not None, 'block': block, 'decoy': decoy}


def execute(sc, ctx):
    out = Outcome()
    text = sc.get('text')
    if text is None:
        text, exp_labels, exp_applied, info = build(sc)
    else:
        exp_labels, exp_applied, info = sc['expected_labels'], sc['expected_applied'], sc['info']
    out.explicit = {'text': text, 'expected_labels': exp_labels, 'expected_applied': exp_applied, 'info': info, 'hashseeds': sc['hashseeds']}
    if info['mand'] >= 2: out.probe('mandatory_ge2')
    if info['mand'] >= 3: out.probe('mandatory_ge3')
    if info['empty']: out.probe('empty_label_list')
    if info['z']: out.probe('z_used')
    if info['maxn'] >= 621: out.probe('number_ge_621')
    if info['maxn'] >= 15621: out.probe('number_ge_15621')
    if info['layout']: out.probe('multi_line_layout')
    if info.get('decoy'): out.probe('same_proof_text_twice')
    out.nontrivial = info['mand'] >= 2 or len(exp_applied) >= 8
    cls = 1 if info['maxn'] <= 20 else 2 if info['maxn'] <= 120 else 3 if info['maxn'] <= 620 else 4 if info['maxn'] <= 3120 else 5
    out.transitions.add('%d/%d/%s/%s' % (info['mand'], cls, info['z'], info['empty']))
    covered_block = info.get('block')
    results = {}
    for h in sc['hashseeds']:
        out.fault('hashseed')
        r = ctx.ask(h, {'op': 'convert', 'text': text, 'target': 'goal'})
        out.ops += 1
        results[h] = r
        out.event(h, 'error' if 'error' in r else 'ok')
    keyed = {h: (('error', r['error']) if 'error' in r else ('ok', tuple(sorted(r['labels'].items(), key=lambda kv: int(kv[0]))), tuple(r['applied']))) for h, r in results.items()}
    distinct = set(keyed.values())
    if len(distinct) > 1:
        out.probe('hashseed_changed_set_order')
        out.violate('the decoding is the same under every hash seed', 'C15|hashseed-dependent',
                    'results differ across PYTHONHASHSEED: %s' % {h: (k[0], k[1] if k[0] == 'error' else dict(k[1])) for h, k in list(keyed.items())[:4]})
        return out
    k = next(iter(distinct))
    if k[0] == 'error':
        r = next(iter(results.values()))
        out.violate('the converter decodes a compressed proof of the supported shape', 'C15|convert-raises|' + r['error'], r.get('trace', r.get('message', ''))[-700:])
        return out
    got_labels = dict(k[1])
    if got_labels != exp_labels:
        out.violate('numbers index mandatory hypotheses (database order), then the listed labels', 'C15|labels',
                    'expected %s got %s' % (exp_labels, got_labels))
    elif list(k[2]) != exp_applied:
        i = next((i for i, (a, b) in enumerate(zip(k[2], exp_applied)) if a != b), min(len(k[2]), len(exp_applied)))
        out.violate('every step number decodes back to itself, Z marks the preceding step', 'C15|numbers',
                    'first difference at step %d: expected %s got %s' % (i, exp_applied[i:i + 3], list(k[2])[i:i + 3]))
    elif covered_block is not None:
        out.transitions.add('cov:number_blocks:%d' % covered_block)     # every number of the block decoded back to itself
    return out


def shrink(sc):
    if len(sc.get('hashseeds', [])) > 2:
        hs = sc['hashseeds']
        for i in range(len(hs)):
            yield dict(sc, hashseeds=hs[:i] + hs[i + 1:])


def describe(sc):
    d = dict(sc)
    if 'text' in d:
        d['text'] = d['text'].split('\n')
    return d
