"""Stub of the parts of `pyk` that the pi2 K front end imports (the real pyk.kore is absent
from this image).  Field order follows the positional `match` patterns of the repository."""
