def llvm_to_pattern(p):
    raise NotImplementedError('stub')
