class Pattern:
    @staticmethod
    def deserialize(data, *a, **kw):
        raise NotImplementedError('stub')
