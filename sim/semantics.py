"""R2 / R3(part 2): textbook syntax operations on concrete patterns and the finite-model
semantics of matching logic (carriers 1..3), used as the ground truth of C01.

Nothing here shares code with the implementations or with the documented judgements of
sim/terms.py: free variables, polarity, application contexts and capture-avoiding
substitution *with renaming* are the textbook definitions."""
from __future__ import annotations

import itertools

from . import terms as T


# ------------------------------------------------------------------ textbook syntax (concrete patterns)
def fv(p, acc=None):
    """Free variables as a set of ('e', n) / ('s', n)."""
    k = p[0]
    if k in ('e', 's'): return {(k, p[1])}
    if k == 'y': return set()
    if k in ('i', 'a'): return fv(p[1]) | fv(p[2])
    if k == 'E': return fv(p[2]) - {('e', p[1])}
    if k == 'M': return fv(p[2]) - {('s', p[1])}
    raise ValueError('not concrete: ' + k)


def polarity_ok(p, X, want_pos):
    """All free occurrences of set variable X in p are positive (want_pos) / negative."""
    k = p[0]
    if k == 's': return want_pos or p[1] != X
    if k in ('e', 'y'): return True
    if k == 'i': return polarity_ok(p[1], X, not want_pos) and polarity_ok(p[2], X, want_pos)
    if k == 'a': return polarity_ok(p[1], X, want_pos) and polarity_ok(p[2], X, want_pos)
    if k == 'E': return polarity_ok(p[2], X, want_pos)
    if k == 'M': return p[1] == X or polarity_ok(p[2], X, want_pos)
    raise ValueError(k)


def is_app_ctx(p, x):
    """p is an application context whose hole is x: x occurs exactly once, on a path of applications."""
    if p == ('e', x): return True
    if p[0] == 'a':
        l, r = p[1], p[2]
        if ('e', x) not in fv(r) and is_app_ctx(l, x): return True
        if ('e', x) not in fv(l) and is_app_ctx(r, x): return True
    return False


def wf_textbook(p):
    """Every mu body is positive in its bound variable."""
    k = p[0]
    if k in ('e', 's', 'y'): return True
    if k in ('i', 'a'): return wf_textbook(p[1]) and wf_textbook(p[2])
    if k == 'E': return wf_textbook(p[2])
    if k == 'M': return polarity_ok(p[2], p[1], True) and wf_textbook(p[2])
    raise ValueError(k)


def _fresh(kind, avoid):
    n = 200
    while (kind, n) in avoid:
        n += 1
    return n


def subst(p, kind, x, plug):
    """Capture-avoiding substitution p[plug/x] with renaming of bound variables."""
    k = p[0]
    if k in ('e', 's'):
        return plug if (k == kind and p[1] == x) else p
    if k == 'y': return p
    if k in ('i', 'a'): return (k, subst(p[1], kind, x, plug), subst(p[2], kind, x, plug))
    bk = 'e' if k == 'E' else 's'
    if bk == kind and p[1] == x:
        return p
    if (kind, x) not in fv(p[2]):
        return p
    if (bk, p[1]) in fv(plug):
        z = _fresh(bk, fv(plug) | fv(p[2]) | {(kind, x)})
        body = subst(p[2], bk, p[1], (bk, z))
        return (k, z, subst(body, kind, x, plug))
    return (k, p[1], subst(p[2], kind, x, plug))


def instantiate_concrete(t, delta):
    """Schematic term -> concrete pattern: metavariables replaced by concrete plugs, pending
    substitutions resolved by textbook substitution."""
    k = t[0]
    if k in ('e', 's', 'y'): return t
    if k == 'm': return delta[t[1]]
    if k in ('i', 'a'): return (k, instantiate_concrete(t[1], delta), instantiate_concrete(t[2], delta))
    if k in ('E', 'M'): return (k, t[1], instantiate_concrete(t[2], delta))
    if k == 'es': return subst(instantiate_concrete(t[1], delta), 'e', t[2], instantiate_concrete(t[3], delta))
    if k == 'ss': return subst(instantiate_concrete(t[1], delta), 's', t[2], instantiate_concrete(t[3], delta))
    raise ValueError(k)


def constraints_of(t):
    """id -> union of the five constraint sets over all occurrences of that metavariable."""
    out = {}
    for m in T.metavars(t):
        c = out.setdefault(m[1], [set(), set(), set(), set(), set()])
        for i in range(5):
            c[i] |= set(m[2 + i])
    return out


def admissible(plug, c):
    f = fv(plug)
    if any(('e', x) in f for x in c[0]): return False
    if any(('s', x) in f for x in c[1]): return False
    if any(not polarity_ok(plug, x, True) for x in c[2]): return False
    if any(not polarity_ok(plug, x, False) for x in c[3]): return False
    if any(not is_app_ctx(plug, x) for x in c[4]): return False
    return wf_textbook(plug)


def gen_concrete(rng, evars, svars, syms, depth):
    if depth <= 0 or rng.random() < 0.3:
        r = rng.random()
        if r < 0.4: return ('e', rng.choice(evars))
        if r < 0.65: return ('s', rng.choice(svars))
        if r < 0.8: return T.BOT
        return ('y', rng.choice(syms))
    r = rng.random()
    if r < 0.35: return ('i', gen_concrete(rng, evars, svars, syms, depth - 1), gen_concrete(rng, evars, svars, syms, depth - 1))
    if r < 0.65: return ('a', gen_concrete(rng, evars, svars, syms, depth - 1), gen_concrete(rng, evars, svars, syms, depth - 1))
    if r < 0.85: return ('E', rng.choice(evars), gen_concrete(rng, evars, svars, syms, depth - 1))
    X = rng.choice(svars)
    for _ in range(4):
        b = gen_concrete(rng, evars, svars, syms, depth - 1)
        if polarity_ok(b, X, True):
            return ('M', X, b)
    return ('M', X, ('s', X))


def gen_admissible(rng, c, evars, svars, syms):
    """A concrete plug satisfying constraint sets c (or None)."""
    if c[4]:
        # application context in the (single) hole, built directly
        holes = sorted(c[4])
        if len(holes) > 1: return None
        x = holes[0]
        if x in c[0]: return None
        p = ('e', x)
        ev2 = [e for e in evars if e != x] or [x + 1]
        for _ in range(rng.randint(0, 2)):
            side = gen_concrete(rng, ev2, svars, syms, 1)
            p = ('a', p, side) if rng.random() < 0.5 else ('a', side, p)
        return p if admissible(p, c) else None
    ev = [e for e in evars if e not in c[0]] or None
    sv = [s for s in svars if s not in c[1]] or None
    # instances that actually *use* the variables the constraints talk about, with the allowed polarity
    # (an instance in which they do not occur at all satisfies every constraint and tests nothing)
    if (c[2] or c[3]) and rng.random() < 0.7:
        parts = []
        for X in sorted(set(c[2]) | set(c[3])):
            if X in c[1]:
                continue
            if X in c[2] and X in c[3]:
                continue                       # both polarities demanded: only absence satisfies it
            parts.append(('s', X) if X in c[2] else ('i', ('s', X), T.BOT))
        rng.shuffle(parts)
        if parts:
            p = parts[0]
            for q in parts[1:]:
                p = ('a', p, q) if rng.random() < 0.5 else ('i', ('i', p, T.BOT), q)
            if rng.random() < 0.3:
                p = ('a', ('y', rng.choice(syms)), p)
            if admissible(p, c):
                return p
    for _ in range(12):
        p = gen_concrete(rng, ev or [min(set(range(257)) - set(c[0]))], sv or [min(set(range(257)) - set(c[1]))], syms, rng.randint(0, 2))
        if admissible(p, c):
            return p
    p = ('y', rng.choice(syms))
    return p if admissible(p, c) else T.BOT if admissible(T.BOT, c) else None


# ------------------------------------------------------------------------- models
class EvalBudget(Exception):
    """Deterministic work bound of one counterexample search (nested fixpoints and quantifiers are exponential)."""


class Model:
    def __init__(self, n, sym, app):
        self.n = n
        self.full = (1 << n) - 1
        self.sym = sym        # id -> bitmask
        self.app = app        # app[a][b] -> bitmask

    budget = 1 << 60

    def eval(self, p, re, rs):
        self.budget -= 1
        if self.budget < 0:
            raise EvalBudget()
        k = p[0]
        if k == 'e': return 1 << re[p[1]]
        if k == 's': return rs[p[1]]
        if k == 'y': return self.sym.get(p[1], 0)
        if k == 'i': return (~self.eval(p[1], re, rs) | self.eval(p[2], re, rs)) & self.full
        if k == 'a':
            A, B = self.eval(p[1], re, rs), self.eval(p[2], re, rs)
            out = 0
            for a in range(self.n):
                if A >> a & 1:
                    row = self.app[a]
                    for b in range(self.n):
                        if B >> b & 1:
                            out |= row[b]
            return out
        if k == 'E':
            out = 0
            old = re.get(p[1])
            for m in range(self.n):
                re[p[1]] = m
                out |= self.eval(p[2], re, rs)
            if old is None: del re[p[1]]
            else: re[p[1]] = old
            return out
        if k == 'M':
            old = rs.get(p[1])
            cur = 0
            for _ in range(self.n + 2):
                rs[p[1]] = cur
                nxt = self.eval(p[2], re, rs)
                if nxt == cur:
                    break
                cur = nxt | cur          # bodies are positive (checked separately); join keeps the iteration monotone
            if old is None: del rs[p[1]]
            else: rs[p[1]] = old
            return cur
        raise ValueError(k)


def random_model(rng, n, syms):
    sym = {s: rng.randrange(1 << n) for s in syms}
    app = [[rng.randrange(1 << n) for _ in range(n)] for _ in range(n)]
    return Model(n, sym, app)


def canonical_models(syms):
    out = []
    # |M| = 1
    out.append(Model(1, {s: 1 for s in syms}, [[1]]))
    out.append(Model(1, {s: 0 for s in syms}, [[0]]))
    # |M| = 2, symbols singletons, application = "second projection" / constant / empty
    out.append(Model(2, {s: 1 << (s % 2) for s in syms}, [[1, 2], [1, 2]]))
    out.append(Model(2, {s: 1 << (s % 2) for s in syms}, [[1, 1], [2, 2]]))
    out.append(Model(2, {s: 3 for s in syms}, [[0, 1], [2, 3]]))
    out.append(Model(3, {s: 1 << (s % 3) for s in syms}, [[1, 2, 4], [2, 4, 1], [4, 1, 2]]))
    return out


def counterexample(p, model, rng, max_vals=48):
    """A valuation under which concrete pattern p is not the whole carrier, or None."""
    f = sorted(fv(p))
    ev = [x for k, x in f if k == 'e']
    sv = [x for k, x in f if k == 's']
    n = model.n
    total = (n ** len(ev)) * ((1 << n) ** len(sv))
    if total <= max_vals:
        vals = itertools.product(itertools.product(range(n), repeat=len(ev)), itertools.product(range(1 << n), repeat=len(sv)))
    else:
        vals = ((tuple(rng.randrange(n) for _ in ev), tuple(rng.randrange(1 << n) for _ in sv)) for _ in range(max_vals))
    model.budget = 60000
    try:
        for e_vals, s_vals in vals:
            re = dict(zip(ev, e_vals))
            rs = dict(zip(sv, s_vals))
            v = model.eval(p, re, rs)
            if v != model.full:
                return {'evars': dict(zip(ev, e_vals)), 'svars': dict(zip(sv, s_vals)), 'value': v}
    except EvalBudget:
        return None          # inconclusive: never a refutation
    finally:
        model.budget = 1 << 60
    return None


def invalidity_witness(t, rng, models, evars, svars, syms, n_inst=4):
    """Search for (instance, model, valuation) refuting the schematic theorem t.
    Returns None (no refutation found) or a dict describing the refutation."""
    cons = constraints_of(t)
    for k in range(n_inst):
        delta = {}
        ok = True
        for i, c in cons.items():
            p = gen_admissible(rng, c, evars, svars, syms)
            if p is None:
                ok = False
                break
            delta[i] = p
        if not ok:
            continue
        inst = instantiate_concrete(t, delta)
        if not wf_textbook(inst):
            return {'kind': 'ill-formed-mu', 'instance': T.show(inst), 'delta': {i: T.show(p) for i, p in delta.items()}}
        for m in models:
            ce = counterexample(inst, m, rng)
            if ce is not None:
                return {'kind': 'invalid', 'instance': T.show(inst), 'delta': {i: T.show(p) for i, p in delta.items()},
                        'model': {'n': m.n, 'sym': m.sym, 'app': m.app}, 'valuation': ce}
        if not cons:
            break
    return None
