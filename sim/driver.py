"""./check <Cxx> quick|thorough [--replay f] -- orchestrates workers, minimises, classifies
against known_findings.json, writes evidence.  Exit 0 / 1 (VIOLATION) / 2 (harness error)."""
from __future__ import annotations

import argparse
import hashlib
import json
import os
import shutil
import subprocess
import sys
import tempfile
import time

from . import core, registry
from .paths import VERIF, REPO

KNOWN = os.path.join(VERIF, 'known_findings.json')


def load_known(prop):
    try:
        with open(KNOWN) as f:
            data = json.load(f)
    except FileNotFoundError:
        return []
    return [e for e in data.get('findings', []) if e['property'] == prop and e.get('status') == 'open']


def covered_sets(transitions, engine):
    """Transitions named 'cov:<set>:<item>' are items of a finite set the engine wants covered."""
    out = {}
    for t in transitions:
        if t.startswith('cov:'):
            _, name, _item = t.split(':', 2)
            out[name] = out.get(name, 0) + 1
    sizes = getattr(engine, 'COVER_SETS', {})
    return {n: {'covered': out.get(n, 0), 'of': sizes[n][0], 'meaning': sizes[n][1]} for n in sizes}


def match_known(known, signature):
    """Exact or '|'-prefix match; 'x|dev=a+b' is known only if 'x|dev=a' and 'x|dev=b' both are."""
    if '|dev=' in signature:
        head, devs = signature.split('|dev=', 1)
        hit = None
        for d in devs.split('+'):
            e = _match1(known, head + '|dev=' + d)
            if e is None:
                return None
            hit = hit or e
        return hit
    return _match1(known, signature)


def _match1(known, signature):
    for e in known:
        if signature == e['signature'] or signature.startswith(e['signature'] + '|'):
            return e
    return None


def spawn_workers(prop, seed, first, count, nworkers, wall, tier, tmp, hashseed):
    procs = []
    for k in range(nworkers):
        out = os.path.join(tmp, 'w%d.json' % k)
        env = core.worker_env(hashseed)
        env['VERIF_TIER'] = tier
        cmd = core.worker_cmd([prop, k, nworkers, seed, first, count, wall, out])
        p = subprocess.Popen(cmd, env=env, cwd=VERIF, stdout=subprocess.DEVNULL, stderr=subprocess.PIPE, text=True)
        procs.append((p, out))
    return procs


def merge(procs, hard_timeout):
    agg = {'runs': 0, 'ops': 0, 'digests': {}, 'probes': {}, 'faults': {}, 'transitions': set(), 'klass': {},
           'nontrivial_keys': set(), 'violations': [], 'harness_errors': [], 'refused': 0, 'samples': [],
           'stopped_early': False, 'slowest': [0.0, -1]}
    t_end = time.monotonic() + hard_timeout
    for p, out in procs:
        try:
            _, err = p.communicate(timeout=max(1, t_end - time.monotonic()))
        except subprocess.TimeoutExpired:
            p.kill()
            _, err = p.communicate()
            agg['harness_errors'].append({'run': None, 'error': 'worker exceeded the hard wall-clock limit and was killed'})
            continue
        if p.returncode != 0 or not os.path.exists(out):
            agg['harness_errors'].append({'run': None, 'error': 'worker exit %s: %s' % (p.returncode, (err or '')[-3000:])})
            continue
        with open(out) as f:
            w = json.load(f)
        agg['runs'] += w['runs']; agg['ops'] += w['ops']; agg['refused'] += w['refused']
        agg['digests'].update({int(k): v for k, v in w['digests'].items()})
        for key in ('probes', 'faults', 'klass'):
            for k, v in w[key].items():
                agg[key][k] = agg[key].get(k, 0) + v
        agg['transitions'].update(w['transitions'])
        agg['nontrivial_keys'].update(w['nontrivial_keys'])
        agg['violations'] += w['violations']
        agg['harness_errors'] += w['harness_errors']
        agg['samples'] += w['samples']
        agg['stopped_early'] |= w['stopped_early']
        if w.get('slowest', [0])[0] > agg['slowest'][0]:
            agg['slowest'] = w['slowest']
    agg['violations'].sort(key=lambda v: v['run'])
    agg['samples'].sort(key=lambda s: s['run'])
    return agg


def minimise(prop, scenario, signature, budget_s, hashseed):
    """Delta-debug in a helper process (pristine import state, fork per candidate)."""
    with tempfile.TemporaryDirectory(prefix='vm_') as d:
        ip, op = os.path.join(d, 'i.json'), os.path.join(d, 'o.json')
        with open(ip, 'w') as f:
            json.dump({'scenario': scenario, 'signature': signature, 'budget': budget_s}, f)
        cmd = core.worker_cmd([])[:-1]   # strip 'worker'
        cmd += ['minimise', prop, ip, op]
        try:
            subprocess.run(cmd, env=core.worker_env(hashseed), cwd=VERIF, timeout=budget_s + 120,
                           stdout=subprocess.DEVNULL, stderr=subprocess.DEVNULL)
            with open(op) as f:
                return json.load(f)
        except Exception:
            return {'scenario': scenario, 'steps': 0, 'tried': 0}


def minimise_main(argv):
    prop, ip, op = argv[:3]
    with open(ip) as f:
        job = json.load(f)
    engine = core.load_engine(prop)
    ctx = core.Ctx(engine)
    if hasattr(engine, 'warmup'):
        engine.warmup(ctx)
    cur, sig = job['scenario'], job['signature']
    deadline = time.monotonic() + job['budget']
    steps = tried = 0
    improved = True
    while improved and time.monotonic() < deadline:
        improved = False
        for cand in engine.shrink(cur):
            if time.monotonic() > deadline:
                break
            tried += 1
            res = core.execute_one(engine, cand, ctx)
            if 'harness_error' in res:
                continue
            if any(v['signature'] == sig for v in res['violations']):
                cur = cand
                steps += 1
                improved = True
                break
    ctx.close()
    with open(op, 'w') as f:
        json.dump({'scenario': cur, 'steps': steps, 'tried': tried}, f)


def write_replay(prop, scenario, violation, hashseed, minimised_info):
    os.makedirs(os.path.join(VERIF, 'replays'), exist_ok=True)
    body = {'property': prop, 'hashseed': hashseed, 'oracle': violation['oracle'], 'signature': violation['signature'],
            'detail': violation['detail'], 'scenario': scenario, 'minimisation': minimised_info}
    name = '%s_%s.json' % (prop, hashlib.sha256(json.dumps(body, sort_keys=True).encode()).hexdigest()[:12])
    path = os.path.join(VERIF, 'replays', name)
    with open(path, 'w') as f:
        json.dump(body, f, indent=1, sort_keys=True)
    return path


def do_replay(prop, path):
    with open(path) as f:
        body = json.load(f)
    res = core.run_fresh(prop, body['scenario'], body.get('hashseed', 0))
    if 'harness_error' in res:
        print('HARNESS-ERROR: ' + res['harness_error'])
        return 2
    sigs = [v['signature'] for v in res['violations']]
    print('replay digest=%s violations=%s' % (res['digest'], sigs))
    known = load_known(prop)
    unknown = [v for v in res['violations'] if not match_known(known, v['signature'])]
    for v in res['violations']:
        e = match_known(known, v['signature'])
        if e:
            print('KNOWN-FINDING: property=%s %s' % (prop, e['what']))
    if unknown:
        if body['signature'] not in [v['signature'] for v in unknown]:
            print('replay produced different violation(s) than recorded (%s)' % body['signature'])
        print('VIOLATION property=%s replay=%s' % (prop, path))
        for v in unknown:
            print('  oracle=%s signature=%s\n  %s' % (v['oracle'], v['signature'], v['detail'][:600]))
        return 1
    if res['violations']:
        return 0
    print('replay: no violation (the recorded one does not reproduce on this tree)')
    return 0


def main(argv=None):
    ap = argparse.ArgumentParser()
    ap.add_argument('prop')
    ap.add_argument('tier', nargs='?', default=os.environ.get('VERIF_TIER', 'quick'))
    ap.add_argument('--replay')
    ap.add_argument('--seed', type=int, default=None)
    ap.add_argument('--workers', type=int, default=int(os.environ.get('VERIF_WORKERS', '16')))
    ap.add_argument('--runs', type=int, default=None)
    ap.add_argument('--wall', type=float, default=None)
    ap.add_argument('--digests-out')
    ap.add_argument('--no-evidence', action='store_true')
    ap.add_argument('--hashseed', type=int, default=int(os.environ.get('VERIF_WORKER_HASHSEED', '0')))
    a = ap.parse_args(argv)
    prop = a.prop
    if prop not in registry.ENGINES:
        print('unknown property ' + prop)
        return 2
    if a.replay:
        return do_replay(prop, a.replay)
    tier = a.tier if a.tier in ('quick', 'thorough') else 'quick'
    seed = a.seed if a.seed is not None else int(os.environ.get('VERIF_SEED', '20260925'))
    t0 = time.time()
    print('VERIF_SEED=%d property=%s tier=%s repo=%s' % (seed, prop, tier, REPO), flush=True)
    engine = core.load_engine(prop)
    spec = dict(engine.TIERS[tier])
    if a.runs is not None: spec['runs'] = a.runs
    if a.wall is not None: spec['wall'] = a.wall
    nworkers = max(1, min(a.workers, spec['runs']))
    # build what the engine needs from the working tree, once, before the workers start
    try:
        if hasattr(engine, 'prepare'):
            engine.prepare()
    except Exception as e:
        print('HARNESS-ERROR: prepare failed: %s' % e)
        return 2
    tmp = tempfile.mkdtemp(prefix='vd_')
    try:
        procs = spawn_workers(prop, seed, 0, spec['runs'], nworkers, spec['wall'], tier, tmp, a.hashseed)
        agg = merge(procs, spec['wall'] * 3 + 300)
    finally:
        shutil.rmtree(tmp, ignore_errors=True)

    if a.digests_out:
        with open(a.digests_out, 'w') as f:
            json.dump({str(k): v for k, v in sorted(agg['digests'].items())}, f)

    known = load_known(prop)
    rc = 0
    lines = []
    # group violations by signature; minimise and report one representative per signature
    by_sig = {}
    for v in agg['violations']:
        by_sig.setdefault(v['signature'], []).append(v)
    reported = []
    known_hits = {}
    min_budget = spec.get('min_budget', 40)
    n_unknown = 0
    todo = []
    for sig in sorted(by_sig):
        vs = by_sig[sig]
        e = match_known(known, sig)
        if e:
            known_hits.setdefault(e['id'], [e, 0])[1] += len(vs)
            continue
        n_unknown += 1
        if n_unknown > 5:
            lines.append('(further distinct violation signature not minimised: %s, %d runs)' % (sig, len(vs)))
            rc = 1
            continue
        todo.append((sig, vs))

    def handle(item):
        sig, vs = item
        v = vs[0]
        mi = minimise(prop, v['scenario'], sig, min_budget, a.hashseed)
        scen = mi['scenario']
        res = core.run_fresh(prop, scen, a.hashseed)
        ok = 'harness_error' not in res and any(x['signature'] == sig for x in res['violations'])
        info = {'shrink_steps': mi['steps'], 'candidates_tried': mi['tried'], 'replayed_in_fresh_process': ok}
        if not ok:
            scen = v['scenario']
            res0 = core.run_fresh(prop, scen, a.hashseed)
            info['original_replays'] = 'harness_error' not in res0 and any(x['signature'] == sig for x in res0['violations'])
            info['note'] = 'minimised scenario did not replay identically; original kept'
        path = write_replay(prop, scen, v, a.hashseed, info)
        return sig, vs, v, mi, ok, path

    if todo:
        from concurrent.futures import ThreadPoolExecutor
        with ThreadPoolExecutor(max_workers=5) as ex:
            results = list(ex.map(handle, todo))
        for sig, vs, v, mi, ok, path in results:
            lines.append('VIOLATION property=%s replay=%s' % (prop, path))
            lines.append('  oracle=%s signature=%s runs=%d first_run=%d minimised(%d steps/%d tried) fresh-replay=%s' % (
                v['oracle'], sig, len(vs), v['run'], mi['steps'], mi['tried'], ok))
            lines.append('  ' + v['detail'][:500].replace('\n', '\n  '))
            reported.append(sig)
            rc = 1
    for kid, (e, n) in sorted(known_hits.items()):
        lines.append('KNOWN-FINDING: property=%s %s [%s, %d hits]' % (prop, e['what'], kid, n))
    if agg['harness_errors']:
        for he in agg['harness_errors'][:5]:
            lines.append('HARNESS-ERROR: run=%s %s' % (he.get('run'), he['error'][-1500:]))
        if rc == 0:
            rc = 2
    wall = time.time() - t0

    if not a.no_evidence:
        ev = {
            'property_id': prop, 'tier': tier, 'seed': seed, 'level': engine.LEVEL,
            'coverage': {
                'evaluations': agg['runs'],
                'distinct_nontrivial': len(agg['nontrivial_keys']),
                'rule': engine.RULE,
                'samples': [engine.describe(s['scenario']) if hasattr(engine, 'describe') else s['scenario'] for s in agg['samples'][:3]] or ['(no non-trivial run)'],
                'runs_per_hour': int(agg['runs'] / max(wall, 1e-6) * 3600),
                'operations_stepped': agg['ops'],
                'distinct_abstract_transitions': len([t for t in agg['transitions'] if not t.startswith('cov:')]),
                'covered_sets': covered_sets(agg['transitions'], engine),
                'transition_measure': getattr(engine, 'TRANSITION_MEASURE', ''),
                'faults_fired': agg['faults'],
                'run_classes': agg['klass'],
                'probes': agg['probes'],
                'probes_stuck_at_zero': [p for p in getattr(engine, 'PROBES', []) if not agg['probes'].get(p)],
                'refused_by_system_under_test': agg['refused'],
                'simulated_time': 'n/a (the system under test reads no clock)',
                'components': getattr(engine, 'COMPONENTS', {}),
                'workers': nworkers, 'worker_hashseed': a.hashseed, 'slowest_run_s': agg['slowest'][0], 'slowest_run_index': agg['slowest'][1],
                'stopped_at_wall_budget': agg['stopped_early'],
                'known_findings_hit': {k: n for k, (e, n) in known_hits.items()},
                'violation_signatures': reported,
                'harness_errors': len(agg['harness_errors']),
                'all_runs_digest': core.digest_of(sorted(agg['digests'].items())),
            },
            'assumptions': getattr(engine, 'ASSUMPTIONS', []),
            'wall_s': round(wall, 2),
            'violations': len(reported),
        }
        os.makedirs(os.path.join(VERIF, 'evidence'), exist_ok=True)
        with open(os.path.join(VERIF, 'evidence', prop + '.json'), 'w') as f:
            json.dump(ev, f, indent=1, sort_keys=True)
    stuck = [p for p in getattr(engine, 'PROBES', []) if not agg['probes'].get(p)]
    print('runs=%d nontrivial=%d transitions=%d ops=%d faults=%s refused=%d wall=%.1fs slowest_run=%.1fs(#%d)' % (
        agg['runs'], len(agg['nontrivial_keys']), len([t for t in agg['transitions'] if not t.startswith('cov:')]), agg['ops'], agg['faults'], agg['refused'], wall, agg['slowest'][0], agg['slowest'][1]))
    if stuck:
        print('self-assessment: probes stuck at zero: ' + ', '.join(stuck))
    for l in lines:
        print(l)
    print('RESULT property=%s exit=%d' % (prop, rc))
    return rc


if __name__ == '__main__':
    sys.exit(main())
