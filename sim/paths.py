import os
VERIF = os.path.dirname(os.path.dirname(os.path.abspath(__file__)))
REPO = os.environ.get('PI2_REPO', '/repo')
PYSRC = os.path.join(REPO, 'generation', 'src')
