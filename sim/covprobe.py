"""Reach measurement (self-assessment only; off unless VERIF_COV names a directory): which
lines of the toolkit under $PI2_REPO/generation/src the workload of a check executes.  Uses
sys.monitoring LINE events that disable themselves after the first hit, so the cost is one
callback per line per process.  Nothing here is consulted by any oracle or PRNG."""
import json
import os
import sys

LINES = set()
ROOT = None
ON = False


def start():
    global ROOT, ON
    d = os.environ.get('VERIF_COV')
    if not d or ON:
        return
    from .paths import REPO
    ROOT = os.path.join(os.path.realpath(REPO), 'generation', 'src') + os.sep
    mon = sys.monitoring
    tool = mon.COVERAGE_ID
    mon.use_tool_id(tool, 'verif-reach')

    def line(code, lineno):
        fn = code.co_filename
        if fn.startswith(ROOT):
            LINES.add((fn[len(ROOT):], lineno))
        return mon.DISABLE
    mon.register_callback(tool, mon.events.LINE, line)
    mon.set_events(tool, mon.events.LINE)
    ON = True


def reset_for_child():
    """Called in a forked child: collect only what this child adds."""
    global LINES
    if ON:
        LINES = set()


def take():
    return sorted(LINES) if ON else None


def merge(items):
    if ON and items:
        LINES.update((a, b) for a, b in items)


def dump(tag):
    if not ON:
        return
    d = os.environ['VERIF_COV']
    os.makedirs(d, exist_ok=True)
    with open(os.path.join(d, '%s_%d.json' % (tag, os.getpid())), 'w') as f:
        json.dump(sorted(LINES), f)
