"""Bridge between the reference ADT (sim.terms) and the toolkit's Pattern classes.

Extended ADT node for notation / unsimplified instantiation (generator side only):
  ('N', body, ((id, arg), ...))     ==  toolkit Instantiate(body, {id: arg})
Symbols on the toolkit side carry *names*; `py_expand` keeps them as ('y', 'name') and
`unify` explains them by one injective name<->number map (R6)."""
from __future__ import annotations

import sys

from . import terms as T
from .paths import PYSRC

if PYSRC not in sys.path:
    sys.path.insert(0, PYSRC)


def toolkit():
    import proof_generation.pattern as P
    return P


def sym_name(n):
    return 'sym%d' % n if isinstance(n, int) else n


def to_py(t):
    P = toolkit()
    from frozendict import frozendict
    k = t[0]
    if k == 'e': return P.EVar(t[1])
    if k == 's': return P.SVar(t[1])
    if k == 'y': return P.Symbol(sym_name(t[1]))
    if k == 'i': return P.Implies(to_py(t[1]), to_py(t[2]))
    if k == 'a': return P.App(to_py(t[1]), to_py(t[2]))
    if k == 'E': return P.Exists(t[1], to_py(t[2]))
    if k == 'M': return P.Mu(t[1], to_py(t[2]))
    if k == 'm':
        return P.MetaVar(t[1], tuple(P.EVar(x) for x in t[2]), tuple(P.SVar(x) for x in t[3]),
                         tuple(P.SVar(x) for x in t[4]), tuple(P.SVar(x) for x in t[5]), tuple(P.EVar(x) for x in t[6]))
    if k == 'es': return P.ESubst(to_py(t[1]), P.EVar(t[2]), to_py(t[3]))
    if k == 'ss': return P.SSubst(to_py(t[1]), P.SVar(t[2]), to_py(t[3]))
    if k == 'N': return P.Instantiate(to_py(t[1]), frozendict({i: to_py(a) for i, a in t[2]}))
    raise ValueError(k)


def expand(t, lazy=False):
    """Full expansion of 'N' nodes with the textbook simultaneous instantiation (R3).
    Raises T.Abort when the instantiation itself is illegal (constraint/capture).
    lazy=True: arguments whose key does not occur in the definition are not expanded (they are
    not part of the denoted pattern); the strict form is what the machine executes, because the
    serialiser constructs every argument."""
    k = t[0]
    if k in ('e', 's', 'y', 'm'): return t
    if k in ('i', 'a'): return (k, expand(t[1], lazy), expand(t[2], lazy))
    if k in ('E', 'M'): return (k, t[1], expand(t[2], lazy))
    if k in ('es', 'ss'): return (k, expand(t[1], lazy), t[2], expand(t[3], lazy))
    if k == 'N':
        body = expand(t[1], lazy)
        args = t[2]
        if lazy:
            used = set(m[1] for m in T.metavars(body))
            args = [(i, a) for i, a in args if i in used]
        ids = [i for i, _ in args]
        plugs = [expand(a, lazy) for _, a in args]
        return T.instantiate(body, ids, plugs)
    raise ValueError(k)


def from_py(p):
    """Toolkit pattern -> extended ADT (symbols keep their names; Instantiate -> 'N')."""
    P = toolkit()
    if isinstance(p, P.EVar): return ('e', p.name)
    if isinstance(p, P.SVar): return ('s', p.name)
    if isinstance(p, P.Symbol): return ('y', p.name)
    if isinstance(p, P.Implies): return ('i', from_py(p.left), from_py(p.right))
    if isinstance(p, P.App): return ('a', from_py(p.left), from_py(p.right))
    if isinstance(p, P.Exists): return ('E', p.var, from_py(p.subpattern))
    if isinstance(p, P.Mu): return ('M', p.var, from_py(p.subpattern))
    if isinstance(p, P.MetaVar):
        def names(l):
            return tuple(x.name if hasattr(x, 'name') else x for x in l)
        return ('m', p.name, names(p.e_fresh), names(p.s_fresh), names(p.positive), names(p.negative), names(p.app_ctx_holes))
    if isinstance(p, P.ESubst): return ('es', from_py(p.pattern), p.var.name, from_py(p.plug))
    if isinstance(p, P.SSubst): return ('ss', from_py(p.pattern), p.var.name, from_py(p.plug))
    if isinstance(p, P.Instantiate):
        return ('N', from_py(p.pattern), tuple((i, from_py(a)) for i, a in p.inst.items()))
    raise ValueError(type(p))


def py_expand(p, lazy=False):
    return expand(from_py(p), lazy)


class SymMap:
    """One injective name <-> number map that must explain every comparison of a run."""

    def __init__(self):
        self.n2i = {}
        self.i2n = {}

    def bind(self, name, i):
        if name in self.n2i:
            return self.n2i[name] == i
        if i in self.i2n:
            return False
        self.n2i[name] = i
        self.i2n[i] = name
        return True


def unify(a, b, sm):
    """a: expanded toolkit-side term (symbol names), b: machine term (symbol numbers)."""
    if a[0] != b[0]:
        return False
    k = a[0]
    if k == 'y':
        return sm.bind(a[1], b[1])
    if k in ('e', 's'):
        return a[1] == b[1]
    if k in ('i', 'a'):
        return unify(a[1], b[1], sm) and unify(a[2], b[2], sm)
    if k in ('E', 'M'):
        return a[1] == b[1] and unify(a[2], b[2], sm)
    if k == 'm':
        return a[1:] == b[1:]
    if k in ('es', 'ss'):
        return a[2] == b[2] and unify(a[1], b[1], sm) and unify(a[3], b[3], sm)
    return False


def rename_syms(t, f):
    k = t[0]
    if k == 'y': return ('y', f(t[1]))
    if k in ('e', 's', 'm'): return t
    if k in ('i', 'a'): return (k, rename_syms(t[1], f), rename_syms(t[2], f))
    if k in ('E', 'M'): return (k, t[1], rename_syms(t[2], f))
    if k in ('es', 'ss'): return (k, rename_syms(t[1], f), t[2], rename_syms(t[3], f))
    if k == 'N': return ('N', rename_syms(t[1], f), tuple((i, rename_syms(a, f)) for i, a in t[2]))
    raise ValueError(k)


def show_ext(t):
    if t[0] == 'N':
        return '(N %s {%s})' % (show_ext(t[1]), ', '.join('%d:%s' % (i, show_ext(a)) for i, a in t[2]))
    k = t[0]
    if k == 'y': return 'y:%s' % (t[1],)
    if k in ('e', 's'): return '%s%d' % (k, t[1])
    if k in ('i', 'a'): return '(%s %s %s)' % (k, show_ext(t[1]), show_ext(t[2]))
    if k in ('E', 'M'): return '(%s%d %s)' % (k, t[1], show_ext(t[2]))
    if k == 'm': return T.show(t)
    if k in ('es', 'ss'): return '(%s %s %d %s)' % (k, show_ext(t[1]), t[2], show_ext(t[3]))
    raise ValueError(k)
