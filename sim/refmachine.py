"""R1 -- the documented stack machine (docs/proof-language.md), written from the
document and sharing no code with lib.rs or the Python toolkit.  Stances where the
document is silent are listed in DESIGN.md section 3.1."""
from __future__ import annotations

from . import terms as T
from .terms import Abort

# stance 1: opcode numbers (independent constant table)
OP = {
    'EVar': 2, 'SVar': 3, 'Symbol': 4, 'Implies': 5, 'App': 6, 'Mu': 7, 'Exists': 8,
    'MetaVar': 9, 'ESubst': 10, 'SSubst': 11,
    'Prop1': 12, 'Prop2': 13, 'Prop3': 14, 'Quantifier': 15,
    'PropagationOr': 16, 'PropagationExists': 17, 'PreFixpoint': 18, 'Existence': 19, 'Singleton': 20,
    'ModusPonens': 21, 'Generalization': 22, 'Frame': 23, 'Substitution': 24, 'KnasterTarski': 25,
    'Instantiate': 26, 'Pop': 27, 'Save': 28, 'Load': 29, 'Publish': 30,
    'CleanMetaVar': 137,
}
NAME = {v: k for k, v in OP.items()}
ONE_OPERAND = {'EVar', 'SVar', 'Symbol', 'Exists', 'Mu', 'ESubst', 'SSubst', 'Generalization', 'Substitution', 'Load', 'CleanMetaVar'}
UNIMPLEMENTED = {'PropagationOr', 'PropagationExists', 'PreFixpoint', 'Singleton', 'Frame', 'KnasterTarski'}

GAMMA, CLAIM, PROOF = 0, 1, 2

PHI0, PHI1, PHI2 = T.mv(0), T.mv(1), T.mv(2)
PROP1 = T.imp(PHI0, T.imp(PHI1, PHI0))
PROP2 = T.imp(T.imp(PHI0, T.imp(PHI1, PHI2)), T.imp(T.imp(PHI0, PHI1), T.imp(PHI0, PHI2)))
PROP3 = T.imp(T.neg(T.neg(PHI0)), PHI0)
QUANT = T.imp(T.esub(PHI0, 0, T.evar(1)), T.ex(0, PHI0))
EXISTENCE = T.ex(0, T.evar(0))


def parse_one(buf, pos):
    """Decode one instruction at buf[pos:].  Returns (name, operands, newpos).
    Raises Abort on an unknown opcode or an operand cut short."""
    b = buf[pos]
    name = NAME.get(b)
    if name is None:
        raise Abort('unknown opcode %d' % b)
    pos += 1

    def byte(what):
        nonlocal pos
        if pos >= len(buf):
            raise Abort('truncated operand: ' + what)
        v = buf[pos]
        pos += 1
        return v

    if name in ONE_OPERAND:
        return name, (byte(name + ' id'),), pos
    if name == 'MetaVar':
        i = byte('MetaVar id')
        lists = []
        for li in range(5):
            n = byte('MetaVar list length')
            lists.append(tuple(byte('MetaVar list element') for _ in range(n)))
        return name, (i, *lists), pos
    if name == 'Instantiate':
        n = byte('Instantiate n')
        if 'strict_inst' not in T.FLAGS:
            n = min(n, len(buf) - pos)
        ids = tuple(byte('Instantiate id') for _ in range(n))
        return name, (ids,), pos
    return name, (), pos


def split(buf):
    """Instruction boundaries of buf: list of chunks; if the tail does not parse, it is
    returned as the last chunk with ok=False."""
    chunks, pos = [], 0
    while pos < len(buf):
        try:
            _, _, npos = parse_one(buf, pos)
        except Abort:
            chunks.append(bytes(buf[pos:]))
            return chunks, False
        chunks.append(bytes(buf[pos:npos]))
        pos = npos
    return chunks, True


class Machine:
    def __init__(self, check_holes=True):
        self.stack = []      # ('P'|'T', term)
        self.memory = []     # ('P'|'T', term)
        self.claims = []     # terms
        self.phase = GAMMA
        self.journal = {'axioms': [], 'claims': [], 'proved': []}
        self.check_holes = check_holes
        self.trace = []      # (phase, opname) of executed instructions

    # -- helpers
    def _pop(self):
        if not self.stack: raise Abort('stack underflow')
        return self.stack.pop()

    def _pop_pattern(self):
        k, t = self._pop()
        if k != 'P': raise Abort('expected pattern on stack')
        return t

    def _pop_proved(self):
        k, t = self._pop()
        if k != 'T': raise Abort('expected proved on stack')
        return t

    def next_phase(self):
        # stance 2: the stack is cleared, the memory is kept
        self.stack = []
        self.phase += 1

    @staticmethod
    def _shape(e):
        return e[0] + ':' + e[1][0]

    def exec_instr(self, name, ops):
        st = self.stack
        before = (self._shape(st[-1]) if st else '-', self._shape(st[-2]) if len(st) > 1 else '-')
        if name == 'EVar': st.append(('P', T.evar(ops[0])))
        elif name == 'SVar': st.append(('P', T.svar(ops[0])))
        elif name == 'Symbol': st.append(('P', T.sym(ops[0])))
        elif name in ('Implies', 'App'):
            r = self._pop_pattern(); l = self._pop_pattern()
            st.append(('P', ('i' if name == 'Implies' else 'a', l, r)))
        elif name == 'Exists':
            st.append(('P', T.ex(ops[0], self._pop_pattern())))
        elif name == 'Mu':
            t = T.mu(ops[0], self._pop_pattern())
            if not T.wf_construct(t): raise Abort('ill-formed mu')
            st.append(('P', t))
        elif name == 'MetaVar':
            t = ('m',) + tuple(ops)
            if not T.wf_construct(t): raise Abort('ill-formed metavar')
            st.append(('P', t))
        elif name == 'CleanMetaVar':
            st.append(('P', T.mv(ops[0])))
        elif name in ('ESubst', 'SSubst'):
            pat = self._pop_pattern(); plug = self._pop_pattern()   # stance 3
            t = ('es' if name == 'ESubst' else 'ss', pat, ops[0], plug)
            if not T.wf_construct(t): raise Abort('ill-formed substitution')
            st.append(('P', t))
        elif name == 'Prop1': st.append(('T', PROP1))
        elif name == 'Prop2': st.append(('T', PROP2))
        elif name == 'Prop3': st.append(('T', PROP3))
        elif name == 'Quantifier': st.append(('T', QUANT))
        elif name == 'Existence': st.append(('T', EXISTENCE))
        elif name == 'ModusPonens':
            p2 = self._pop_proved(); p1 = self._pop_proved()
            if p1[0] != 'i': raise Abort('modus ponens: not an implication')
            if p1[1] != p2: raise Abort('modus ponens: antecedent mismatch')
            st.append(('T', p1[2]))
        elif name == 'Generalization':
            p = self._pop_proved()
            if p[0] != 'i': raise Abort('generalization: not an implication')
            if not T.e_fresh(p[2], ops[0]): raise Abort('generalization: variable not fresh')
            st.append(('T', T.imp(T.ex(ops[0], p[1]), p[2])))
        elif name == 'Substitution':
            p = self._pop_proved(); plug = self._pop_pattern()
            st.append(('T', T.apply_ssubst(p, ops[0], plug)))
        elif name == 'Instantiate':
            ids = list(ops[0])
            kind, t = self._pop()
            plugs = [self._pop_pattern() for _ in ids]
            st.append((kind, T.instantiate(t, ids, plugs, self.check_holes)))
        elif name == 'Pop': self._pop()
        elif name == 'Save':
            if not st: raise Abort('save on empty stack')
            self.memory.append(st[-1])
        elif name == 'Load':
            if ops[0] >= len(self.memory): raise Abort('bad memory index')
            st.append(self.memory[ops[0]])
        elif name == 'Publish':
            if self.phase == GAMMA:
                t = self._pop_pattern()
                self.memory.append(('T', t)); self.journal['axioms'].append(t)
            elif self.phase == CLAIM:
                t = self._pop_pattern()
                self.claims.append(t); self.journal['claims'].append(t)
            else:
                if not self.claims: raise Abort('insufficient claims')
                c = self.claims.pop()
                t = self._pop_proved()
                if c != t: raise Abort('proof does not prove the requested claim')
                self.journal['proved'].append(t)
        else:
            raise Abort('instruction without documented semantics: ' + name)   # stance 5
        self.trace.append((self.phase, name) + before)

    def run_chunk(self, buf):
        pos = 0
        while pos < len(buf):
            name, ops, pos = parse_one(buf, pos)
            self.exec_instr(name, ops)

    def dump(self):
        out = ['S %d' % len(self.stack)]
        out += ['%s:%s' % (k, T.show(t)) for k, t in self.stack]
        out.append('M %d' % len(self.memory))
        out += ['%s:%s' % (k, T.show(t)) for k, t in self.memory]
        out.append('C %d' % len(self.claims))
        out += ['P:%s' % T.show(t) for t in self.claims]
        return '\n'.join(out) + '\n'


def verify(gamma, claim, proof, check_holes=True):
    """Whole-triple verdict: (accepted, machine, abort message, (phase, byte offset) of abort)."""
    m = Machine(check_holes)
    for pi, buf in enumerate((gamma, claim, proof)):
        if pi: m.next_phase()
        pos = 0
        try:
            while pos < len(buf):
                name, ops, npos = parse_one(buf, pos)
                m.exec_instr(name, ops)
                pos = npos
        except Abort as e:
            return False, m, str(e), (pi, pos)
    if m.claims:
        return False, m, 'claims left unproved', (3, 0)
    return True, m, '', None
