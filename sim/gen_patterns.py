"""Seeded generators of terms (own ADT) and of their construction byte code."""
from __future__ import annotations

from . import terms as T
from .refmachine import OP


class Knobs:
    """Swarm knobs for one run, all drawn from the run PRNG."""

    def __init__(self, rng):
        self.max_depth = rng.choice([1, 2, 2, 3, 3, 4])
        hi = rng.random() < 0.15
        self.evars = rng.sample([0, 1, 2, 3, 254, 255] if hi else [0, 1, 2, 3], rng.randint(1, 3))
        self.svars = rng.sample([0, 1, 2, 255] if hi else [0, 1, 2], rng.randint(1, 2))
        self.syms = list(range(rng.randint(1, 3))) + ([200] if hi else [])
        self.mvars = rng.sample([0, 1, 2, 3, 4, 128, 255] if hi else [0, 1, 2, 3, 4], rng.randint(1, 3))
        self.p_meta = rng.choice([0.0, 0.15, 0.3, 0.5])
        self.p_constr = rng.choice([0.0, 0.2, 0.5, 0.8])
        self.p_subst = rng.choice([0.0, 0.1, 0.3])
        self.p_binder = rng.choice([0.1, 0.25, 0.4])
        self.p_illformed = rng.choice([0.0, 0.0, 0.05, 0.2])
        self.p_bot = rng.choice([0.05, 0.2])


MULTI_HOLES = False     # set by the C14 engine around materialise: hole lists with two entries in descending order (seeded change S85)


def gen_metavar(rng, k, ident=None):
    i = rng.choice(k.mvars) if ident is None else ident
    if rng.random() >= k.p_constr:
        return T.mv(i)

    def sub(pool):
        l = sorted(set(x for x in pool if rng.random() < 0.4))
        if len(l) >= 2 and rng.random() < 0.35:
            rng.shuffle(l)          # constraint lists are sequences (stance 8): not always ascending
        return tuple(l)
    ef, sf = sub(k.evars), sub(k.svars)
    pos, ng = sub(k.svars), sub(k.svars)
    holes = ()
    if rng.random() < 0.25:
        cand = [x for x in k.evars if x not in ef] if rng.random() >= k.p_illformed else list(k.evars)
        if cand:
            holes = (rng.choice(cand),)
            if MULTI_HOLES and len(cand) >= 2 and rng.random() < 0.5:
                holes = tuple(sorted(rng.sample(cand, 2), reverse=rng.random() < 0.7))
    return T.mv(i, ef, sf, pos, ng, holes)


def gen_pattern(rng, k, depth=None, concrete=False, pool=None):
    """A term that is well-formed by the documented judgement (with probability
    1 - p_illformed per risky constructor)."""
    if depth is None:
        depth = rng.randint(0, k.max_depth)
    if pool and rng.random() < 0.25:
        return rng.choice(pool)
    if depth <= 0 or rng.random() < 0.15:
        r = rng.random()
        if not concrete and r < k.p_meta:
            return gen_metavar(rng, k)
        if r < 0.45 + k.p_meta * 0:
            return T.evar(rng.choice(k.evars))
        if r < 0.65:
            return T.svar(rng.choice(k.svars))
        if r < 0.65 + k.p_bot:
            return T.BOT
        return T.sym(rng.choice(k.syms))
    r = rng.random()
    if r < k.p_binder:
        if rng.random() < 0.6:
            return T.ex(rng.choice(k.evars), gen_pattern(rng, k, depth - 1, concrete, pool))
        v = rng.choice(k.svars)
        for _ in range(4):
            body = gen_pattern(rng, k, depth - 1, concrete, pool)
            if T.positive(body, v) or rng.random() < k.p_illformed:
                return T.mu(v, body)
        return T.mu(v, T.svar(v))
    if not concrete and r < k.p_binder + k.p_subst:
        inner = gen_metavar(rng, k)
        for _ in range(rng.randint(1, 2)):
            plug = gen_pattern(rng, k, max(0, depth - 2), concrete, pool)
            if rng.random() < 0.5:
                t = T.esub(inner, rng.choice(k.evars), plug)
            else:
                t = T.ssub(inner, rng.choice(k.svars), plug)
            if T.wf_construct(t) or rng.random() < k.p_illformed:
                inner = t
        return inner
    l = gen_pattern(rng, k, depth - 1, concrete, pool)
    rr = gen_pattern(rng, k, depth - 1, concrete, pool)
    return T.imp(l, rr) if rng.random() < 0.6 else T.app(l, rr)


def emit(p, rng=None, out=None):
    """Byte code that constructs p on top of the stack (post-order)."""
    top = out is None
    if top:
        out = bytearray()
    k = p[0]
    if k == 'e': out += bytes([OP['EVar'], p[1]])
    elif k == 's': out += bytes([OP['SVar'], p[1]])
    elif k == 'y': out += bytes([OP['Symbol'], p[1]])
    elif k in ('i', 'a'):
        emit(p[1], rng, out); emit(p[2], rng, out)
        out.append(OP['Implies'] if k == 'i' else OP['App'])
    elif k == 'E':
        emit(p[2], rng, out); out += bytes([OP['Exists'], p[1]])
    elif k == 'M':
        emit(p[2], rng, out); out += bytes([OP['Mu'], p[1]])
    elif k == 'm':
        clean = not any(p[2:7])
        if clean and not (rng is not None and rng.random() < 0.1):
            out += bytes([OP['CleanMetaVar'], p[1]])
        else:
            out += bytes([OP['MetaVar'], p[1]])
            for l in p[2:7]:
                out.append(len(l)); out += bytes(l)
    elif k in ('es', 'ss'):
        emit(p[3], rng, out); emit(p[1], rng, out)
        out += bytes([OP['ESubst'] if k == 'es' else OP['SSubst'], p[2]])
    else:
        raise ValueError(k)
    return bytes(out) if top else None
