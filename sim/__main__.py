import sys
from sim import core, driver
if __name__ == '__main__':
    cmd = sys.argv[1]
    if cmd == 'worker':
        core.worker_main(sys.argv[2:])
    elif cmd == 'one':
        core.one_main(sys.argv[2:])
    elif cmd == 'minimise':
        driver.minimise_main(sys.argv[2:])
    elif cmd == 'setup':
        from sim import rust
        print(rust.build_harness()); print(rust.build_checker()); rust.gc_builds()
    else:
        sys.exit(driver.main(sys.argv[1:]))
