"""Proof-module composer (runs where the toolkit is loaded).

`compose(rng, knobs)` grows a random proof module with the *real* toolkit: a small theory of
axioms over seeded atoms, then forward composition of primitive rules and every public
lemma / derived rule of Propositional / Tautology found by introspection.  Whatever the
toolkit accepts at construction is recorded as an explicit step list; `build(recipe)`
re-executes such a list exactly (replay / minimisation never re-run the random search)."""
from __future__ import annotations

import inspect
import random

from . import terms as T
from . import bridge as B
from .gen_patterns import Knobs
from .gen_history import gen_ext, N, NEG_BODY, M0, M1


class Refused(Exception):
    """The toolkit refused a construction step (raised)."""


def _libs():
    from proof_generation.proofs.propositional import Propositional
    from proof_generation.tautology import Tautology
    from proof_generation.proofs.substitution import Substitution
    from proof_generation.proofs.kore import KoreLemmas
    return {'Propositional': Propositional, 'Tautology': Tautology, 'Substitution': Substitution, 'Kore': KoreLemmas}


def kore_atom(rng, sort, args):
    """One application of a shipped Kore notation (several have arguments their definition does not use, and positional
    format strings) to the given sub-terms, as an extended term."""
    import proof_generation.proofs.kore as kl
    S, S2 = B.to_py(sort), B.to_py(T.sym(1))
    a = [B.to_py(x) for x in args]
    fam = [lambda: kl.kore_and(S, a[0], a[1]), lambda: kl.kore_or(S, a[0], a[1]), lambda: kl.kore_not(S, a[0]), lambda: kl.kore_next(S, a[0]),
           lambda: kl.kore_implies(S, a[0], a[1]), lambda: kl.kore_rewrites(S, a[0], a[1]), lambda: kl.kore_top(S), lambda: kl.kore_bottom(S),
           lambda: kl.kore_dv(S, a[0]), lambda: kl.kore_kseq(a[0], a[1]), lambda: kl.kore_equals(S, S2, a[0], a[1]), lambda: kl.kore_iff(S, a[0], a[1]),
           lambda: kl.kore_ceil(S, S2, a[0]), lambda: kl.kore_floor(S, S2, a[0]), lambda: kl.kore_in(S, S2, a[0], a[1]),
           lambda: kl.kore_and(a[2], a[0], a[1]), lambda: kl.kore_next(a[1], a[0])]
    return B.from_py(rng.choice(fam)())


SKIP = {'main', 'serialize', 'import_module', 'execute_full', 'execute_gamma_phase', 'execute_claims_phase',
        'execute_proofs_phase', 'check_interpreting', 'pretty_options', 'get_serializing_interpreter',
        'publish_proof', 'load_axiom', 'load_axiom_by_index', 'dynamic_inst', 'instantiate', 'modus_ponens',
        'exists_generalization', 'exists_quantifier', 'prop1', 'prop2', 'prop3'}


def lib_methods(cls):
    """Public methods whose parameters are all Pattern / ProofThunk and that return a ProofThunk."""
    out = []
    for name, fn in inspect.getmembers(cls, predicate=inspect.isfunction):
        if name.startswith('_') or name in SKIP or name.startswith(('add_', 'get_')):
            continue
        sig = inspect.signature(fn)
        kinds = []
        ok = True
        for pn, p in list(sig.parameters.items())[1:]:
            ann = str(p.annotation)
            if ann == 'Pattern': kinds.append('p')
            elif ann == 'ProofThunk': kinds.append('t')
            elif ann == 'EVar': kinds.append('v')
            else:
                ok = False
        if ok and str(sig.return_annotation) == 'ProofThunk':
            out.append((name, kinds))
    return sorted(out)


def subterms(t, acc):
    if t not in acc and T.size(B.expand(t)) <= 14 if _safe(t) else False:
        acc.append(t)
    k = t[0]
    if k == 'N':
        for _, a in t[2]: subterms(a, acc)
    elif k in ('i', 'a'):
        subterms(t[1], acc); subterms(t[2], acc)
    elif k in ('E', 'M'):
        subterms(t[2], acc)


def _safe(t):
    try:
        B.expand(t)
        return True
    except T.Abort:
        return False


# notation builders that mirror the toolkit's own definitions structurally
def nbot(): return N(T.mu(0, T.svar(0)))
def nneg(a): return N(T.imp(M0, nbot()), a)
def nand(a, b): return N(nneg(T.imp(M0, nneg(M1))), a, b)
def nor(a, b): return N(T.imp(nneg(M0), M1), a, b)
def nequiv(a, b): return N(nand(T.imp(M0, M1), T.imp(M1, M0)), a, b)


class WorkMeter:
    """Deterministic work budget for one composition step: counts calls of Instantiate.simplify
    (the toolkit's equality modulo notation is exponential in the nesting depth of notation, so
    a few innocent-looking steps can cost minutes).  Counting calls, not seconds, keeps the
    composition a pure function of the seed."""

    def __init__(self, budget):
        self.budget = budget
        self.count = 0

    def __enter__(self):
        import proof_generation.pattern as P
        self.P = P
        self.orig = P.Instantiate.simplify
        meter = self

        def simplify(inst):
            meter.count += 1
            if meter.count > meter.budget:
                raise Refused('work budget exceeded')
            return meter.orig(inst)
        P.Instantiate.simplify = simplify
        return self

    def __exit__(self, *a):
        self.P.Instantiate.simplify = self.orig
        return False


class Builder:
    def __init__(self, lib_name, modules):
        from proof_generation.proof import ProofExp
        self.ProofExp = ProofExp
        self.mods = []
        for m in modules:
            pe = ProofExp(axioms=[B.to_py(T.tup(a)) for a in m['axioms']])
            for j in m['imports']:
                pe.import_module(self.mods[j])
            self.mods.append(pe)
        self.main = self.mods[-1]
        self.lib = None
        if lib_name != 'none':
            self.lib = self.main.import_module(_libs()[lib_name]())
        self.pool = []
        self.modules = modules
        self.lib_name = lib_name

    def step(self, s):
        """Execute one explicit step; returns the thunk (or None for an inconclusive taut)."""
        kind = s[0]
        px = self.lib or self.main
        try:
            if kind == 'axiom':
                th = self.mods[s[1]].load_axiom(B.to_py(T.tup(s[2])))
            elif kind == 'prim':
                th = {'prop1': px.prop1, 'prop2': px.prop2, 'prop3': px.prop3, 'quant': px.exists_quantifier}[s[1]]()
            elif kind == 'mp':
                th = px.modus_ponens(self.pool[s[1]], self.pool[s[2]])
            elif kind == 'gen':
                from proof_generation.pattern import EVar
                th = px.exists_generalization(self.pool[s[1]], EVar(s[2]))
            elif kind == 'inst':
                th = px.dynamic_inst(self.pool[s[1]], {i: B.to_py(T.tup(t)) for i, t in s[2]})
            elif kind == 'pinst':
                th = px.instantiate(self.pool[s[1]], {i: B.to_py(T.tup(t)) for i, t in s[2]})
            elif kind == 'lib':
                from proof_generation.pattern import EVar as _EVar
                args = [B.to_py(T.tup(a[1])) if a[0] == 'p' else _EVar(a[1]) if a[0] == 'v' else self.pool[a[1]] for a in s[2]]
                if any(a is None for a in args):
                    raise Refused('premise unavailable')
                th = getattr(self.lib, s[1])(*args)
            elif kind == 'taut':
                res = self.lib.prove_tautology(B.to_py(T.tup(s[1])))
                th = None if res is None else res[1]
            else:
                raise ValueError(kind)
        except Refused:
            raise
        except RecursionError:
            raise Refused('RecursionError')
        except Exception as e:
            raise Refused('%s: %s' % (type(e).__name__, str(e)[:200]))
        self.pool.append(th)
        return th


def build(recipe):
    """Re-execute an explicit recipe.  Returns the Builder with `claims` set on main."""
    b = Builder(recipe['lib'], recipe['modules'])
    for s in recipe['steps']:
        b.step(s)
    finish(b, recipe['claims'])
    return b


def finish(b, claims):
    seen = []
    b.claimed_steps = []
    for ci in claims:
        th = b.pool[ci]
        if th is None:
            raise Refused('claimed step has no proof')
        if th.conc in seen:
            continue
        seen.append(th.conc)
        b.claimed_steps.append(ci)
        b.main.add_claim(th.conc)
        b.main.add_proof_expression(th)


def compose(seed, adversarial=False):
    """Seeded random search for a module the toolkit accepts.  Returns an explicit recipe."""
    rng = random.Random(seed)
    k = Knobs(rng)
    k.p_illformed = 0.0
    p_not = rng.choice([0.2, 0.4, 0.6])
    lib_name = rng.choice(['Propositional', 'Propositional', 'Propositional', 'Tautology', 'Tautology', 'Substitution', 'none', 'Kore'])
    pool_terms = []

    def pat(depth=None):
        t = gen_ext(rng, k, depth if depth is not None else rng.randint(0, 2), p_not, pool_terms if rng.random() < 0.6 else None)
        if lib_name == 'Kore' and rng.random() < 0.45:
            try:
                kt = kore_atom(rng, T.sym(0), [t] + [gen_ext(rng, k, rng.randint(0, 1), p_not, None) for _ in range(2)])
                if _safe(kt) and T.wf_deep(B.expand(kt)):
                    return kt
            except T.Abort:
                pass
        return t

    atoms = [pat(rng.randint(0, 2)) for _ in range(3)]
    P, Q, R_ = atoms
    shapes = [T.imp(P, Q), T.imp(Q, R_), T.imp(P, T.imp(Q, R_)), nneg(P), nneg(nneg(Q)), T.imp(nneg(P), Q), T.imp(P, nneg(Q)),
              nand(P, Q), nor(P, Q), nequiv(P, Q), nequiv(Q, R_), T.imp(nneg(P), nneg(Q)), P, T.imp(T.imp(P, Q), R_),
              T.imp(P, nand(Q, R_)), T.imp(nor(P, Q), R_), T.imp(P, P), nand(nand(P, Q), R_), T.imp(R_, P)]
    # import graph: 0-3 leaf/inner modules below main, diamonds allowed
    modules = []
    nsub = rng.choice([0, 0, 1, 2, 3])
    for i in range(nsub):
        imports = sorted(set(j for j in range(i) if rng.random() < 0.5))
        modules.append({'axioms': [], 'imports': imports})
    main_imports = sorted(set(j for j in range(nsub) if rng.random() < 0.7 or j == nsub - 1))
    modules.append({'axioms': [], 'imports': main_imports})
    reach = set()

    def walk(j):
        if j in reach: return
        reach.add(j)
        for x in modules[j]['imports']: walk(x)
    walk(len(modules) - 1)
    reach = sorted(reach)
    # axioms: theory seeding, spread over reachable modules
    ax_steps = []
    for sh in rng.sample(shapes, rng.randint(2, 7)) + [pat() for _ in range(rng.randint(0, 2))]:
        mi = rng.choice(reach)
        if sh not in modules[mi]['axioms'] and _safe(sh) and T.wf_deep(B.expand(sh)):
            modules[mi]['axioms'].append(sh)
            ax_steps.append(['axiom', mi, sh])
    if rng.random() < 0.2:      # the same axiom declared in two modules (duplicate across the import graph)
        for st in ax_steps[:1]:
            mj = rng.choice(reach)
            if st[2] not in modules[mj]['axioms']:
                modules[mj]['axioms'].append(st[2])

    b = Builder(lib_name, modules)
    steps = []
    methods = lib_methods(type(b.lib)) if b.lib else []
    refused = 0

    def attempt(s):
        nonlocal refused
        try:
            with WorkMeter(4000):
                th = b.step(s)
        except Refused:
            refused += 1
            return False
        steps.append(s)
        if th is not None:
            subterms(B.from_py(th.conc), pool_terms)
            while len(pool_terms) > 24:
                pool_terms.pop(rng.randrange(len(pool_terms)))
        return True

    for s in ax_steps:
        attempt(s)
    target = rng.choice([2, 3, 5, 8, 12])
    tries = 0
    w = {'lib': 6 if b.lib else 0, 'mp': 3, 'inst': 2, 'prim': 1, 'gen': rng.choice([0, 1, 2]), 'genprobe': rng.choice([0, 1, 1]), 'taut': 1 if lib_name == 'Tautology' else 0,
         'quantprobe': rng.choice([0, 1, 1])}
    names, weights = list(w), [w[n] for n in w]
    while len(steps) < len(ax_steps) + target and tries < 200:
        tries += 1
        live = [i for i, t in enumerate(b.pool) if t is not None]
        kind = rng.choices(names, weights)[0]
        if kind == 'prim':
            attempt(['prim', rng.choice(['prop1', 'prop2', 'prop3', 'quant'])])
        elif kind == 'mp' and len(live) >= 2:
            from proof_generation.pattern import Implies
            pairs = []
            for i in live:
                u = Implies.unwrap(b.pool[i].conc)
                if u:
                    for j in live:
                        if u[0] == b.pool[j].conc:
                            pairs.append((i, j))
            if pairs:
                i, j = rng.choice(pairs)
                attempt(['mp', i, j])
        elif kind == 'gen' and live:
            i = rng.choice(live)
            cand = list(k.evars) + [5]
            attempt(['gen', i, rng.choice(cand)])
        elif kind == 'genprobe':
            # P -> (Q -> P) with P full of pending substitutions / binders / constrained metavariables, then a
            # generalisation whose variable the toolkit has to judge (it may refuse; what it accepts is serialised)
            x = rng.choice(k.evars)
            y = rng.choice([e for e in k.evars if e != x] or [(x + 1) % 250])
            X = x if x in (0, 1, 2) else rng.choice(k.svars)
            m, mf = T.mv(3), T.mv(3, ef=(x,))
            plugs = [T.imp(T.evar(x), T.evar(y)), T.evar(y), T.evar(x), T.sym(0), T.mv(4, ef=(x,)), T.ex(x, T.evar(x)), T.svar(X)]
            fam = [T.esub(m, x, rng.choice(plugs)), T.esub(m, y, rng.choice(plugs)), T.ssub(m, X, rng.choice(plugs)), T.ssub(mf, X, rng.choice(plugs)),
                   T.ex(x, m), T.ex(y, T.esub(m, x, rng.choice(plugs))), T.mu(X, T.app(T.svar(X), T.evar(x))), mf, nneg(T.ssub(mf, X, rng.choice(plugs)))]
            P_ = rng.choice(fam)
            if not _safe(P_) or not T.wf_deep(B.expand(P_)):
                continue
            Q_ = rng.choice([T.sym(0), T.evar(y), T.mv(4, ef=(x,)), nbot()])
            if attempt(['prim', 'prop1']) and attempt(['inst', len(b.pool) - 1, [[0, P_], [1, Q_]]]):
                if rng.random() < 0.5:
                    # resolve the pending substitution: the metavariable under it becomes one declared fresh for the
                    # variable (the substitution must vanish, stance 7), a variable, or a closed term
                    tgt = rng.choice([T.mv(4, ef=(x,)), T.mv(3, ef=(x, y)), T.mv(4, sf=(X,)), T.mv(4, ef=(x,), sf=(X,)), T.evar(y), T.evar(x), T.sym(0)])
                    attempt(['inst', len(b.pool) - 1, [[3, tgt]]])
                attempt(['gen', len(b.pool) - 1, rng.choice([x, y] + list(k.evars))])
        elif kind == 'quantprobe':
            # the Quantifier axiom phi0[x1/x0] -> exists x0 . phi0 instantiated with plugs that bind, shadow or mention x0 / x1,
            # plain and under notation applications whose definition binds a variable
            x0, x1 = T.evar(0), T.evar(1)
            v = rng.choice([0, 0, 1, 2])
            fa = lambda t: N(nneg(T.ex(v, nneg(M0))), t)                  # forall v . t as a notation application
            ex2 = lambda t, u: N(T.ex(v, T.imp(M0, M1)), t, u)
            fam = [fa(T.app(T.sym(0), x0)), fa(x0), fa(x1), fa(T.app(x0, x1)), nneg(fa(x0)), ex2(x0, x1), ex2(x1, T.sym(0)), T.ex(0, x0), T.ex(1, T.app(x0, x1)),
                   x0, x1, T.app(x0, x1), nand(x0, fa(x0)), T.mv(1, ef=(0,)), T.mv(1), T.esub(T.mv(1), 0, T.sym(0)), T.imp(x0, T.ex(0, x0)),
                   fa(T.mv(1, ef=(v,)))]      # (always complete applications: Notation.__call__ asserts the arity, and a registered notation cannot print a partial one)
            if lib_name == 'Kore':
                import proof_generation.proofs.kore as kl
                from proof_generation.proofs.substitution import forall as _forall
                S = B.to_py(T.sym(0))
                fam += [B.from_py(kl.kore_exists(v)(S, S, B.to_py(T.app(T.sym(1), T.evar(v))))), B.from_py(kl.sorted_exists(v)(S, B.to_py(x0))),
                        B.from_py(_forall(v)(B.to_py(T.app(T.sym(1), x0))))]
            p_ = rng.choice(fam)
            try:
                if not _safe(p_) or not T.wf_deep(B.expand(p_)):
                    continue
            except T.Abort:
                continue
            if attempt(['prim', 'quant']):
                attempt(['inst', len(b.pool) - 1, [[0, p_]]])
        elif kind == 'inst' and live:
            i = rng.choice(live)
            conc = B.from_py(b.pool[i].conc)
            try:
                ce = B.expand(conc)
            except T.Abort:
                continue
            mvs = T.metavars(ce)
            ids = sorted(set(m[1] for m in mvs))
            if not ids and rng.random() < 0.8:
                continue
            chosen = [x for x in ids if rng.random() < 0.7] or ids[:1]
            if rng.random() < 0.2 or not chosen:
                stray = rng.choice([x for x in range(6) if x not in ids])      # a key that does not occur in the conclusion
                chosen.append(stray)
            rng.shuffle(chosen)
            delta = []
            legal = True
            for x in chosen:
                p = pat()
                delta.append([x, p])
            try:
                T.instantiate(ce, [x for x, _ in delta], [B.expand(p) for _, p in delta])
            except T.Abort:
                legal = False
            if legal or adversarial:
                attempt(['inst', i, delta])
        elif kind == 'lib' and methods:
            name, kinds = rng.choice(methods)
            for _ in range(6):
                args = []
                ok = True
                for kd in kinds:
                    if kd == 'p':
                        args.append(['p', pat()])
                    elif kd == 'v':
                        args.append(['v', rng.choice(list(k.evars) + [5])])
                    else:
                        if not live:
                            ok = False
                            break
                        args.append(['t', rng.choice(live)])
                if ok and attempt(['lib', name, args]):
                    break
        elif kind == 'taut':
            # a propositional formula over metavariables and the propositional notations
            def form(d):
                if d <= 0 or rng.random() < 0.3:
                    return T.mv(rng.choice([0, 1, 2])) if rng.random() < 0.85 else nbot()
                r = rng.random()
                if r < 0.3: return T.imp(form(d - 1), form(d - 1))
                if r < 0.5: return nneg(form(d - 1))
                if r < 0.7: return nand(form(d - 1), form(d - 1))
                if r < 0.9: return nor(form(d - 1), form(d - 1))
                return nequiv(form(d - 1), form(d - 1))
            attempt(['taut', form(rng.randint(1, 3))])
    live = [i for i, t in enumerate(b.pool) if t is not None]
    nclaims = rng.choice([1, 1, 2, 3, 5, 8])
    # prefer derived results over bare axiom loads
    derived = [i for i in live if steps[i][0] not in ('axiom',)] or live
    claims = []
    for i in rng.sample(derived, min(nclaims, len(derived))):
        claims.append(i)
    recipe = {'lib': lib_name, 'modules': modules, 'steps': steps, 'claims': sorted(claims),
              'refused_during_search': refused}
    return recipe
