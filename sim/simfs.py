"""SimFS -- the simulated file system installed at the toolkit's file seam.

`proof_generation.proof` looks `open` up as a module global, so assigning
`proof.open = fs.open` routes every file the serialiser creates into memory.  Streams keep
their content after close, refuse writes after close, and can be armed with a write fault
(F11: OSError at the write that crosses byte k of a given file)."""
from __future__ import annotations

import errno


class SimFile:
    def __init__(self, fs, path, text):
        self.fs = fs
        self.path = path
        self.text = text
        self.data = bytearray()
        self.closed = False
        self.writes = 0

    def write(self, b):
        if self.closed:
            raise ValueError('I/O operation on closed file ' + self.path)
        raw = b.encode('utf-8') if self.text else bytes(b)
        plan = self.fs.fail_at.get(self.path)
        if plan is not None and len(self.data) + len(raw) > plan[0]:
            keep = max(0, plan[0] - len(self.data))
            self.data += raw[:keep]            # short write, then the error
            self.fs.faults_fired += 1
            del self.fs.fail_at[self.path]
            raise OSError(plan[1], 'simulated write failure on ' + self.path)
        self.data += raw
        self.writes += 1
        return len(b)

    def close(self):
        self.closed = True

    def flush(self):
        pass

    def __enter__(self):
        return self

    def __exit__(self, *a):
        self.close()


class SimFS:
    def __init__(self):
        self.files = {}
        self.fail_at = {}       # path -> (byte offset, errno)
        self.faults_fired = 0
        self.opened = []

    def open(self, path, mode='r', *a, **kw):
        p = str(path)
        if 'w' in mode:
            f = SimFile(self, p, 'b' not in mode)
            self.files[p] = f
            self.opened.append(p)
            return f
        if p not in self.files:
            raise FileNotFoundError(errno.ENOENT, 'No such file', p)
        import io
        f = self.files[p]
        return io.BytesIO(bytes(f.data)) if 'b' in mode else io.StringIO(f.data.decode('utf-8'))

    def arm(self, path, offset, err=errno.ENOSPC):
        self.fail_at[str(path)] = (offset, err)

    def content(self, path):
        return bytes(self.files[str(path)].data)

    def triple(self, base, fmt='ml'):
        return tuple(self.content('%s.%s-%s' % (base, fmt, s)) for s in ('gamma', 'claim', 'proof'))
