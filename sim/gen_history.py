"""Seeded generator of proof-DSL call histories (E-history workload).

An op is explicit JSON data; operands of calls are taken, at execution time, from the
tracked stack of the interpreter under test (see engines/history.py).  The generator keeps
a guidance copy of R1, fed with the byte code it *expects* each call to emit, only in order
to choose applicable calls (and, deliberately, some inapplicable ones: fault F12)."""
from __future__ import annotations

from . import terms as T
from . import refmachine as R
from .refmachine import OP
from .gen_patterns import Knobs, gen_pattern, gen_metavar, emit
from .bridge import expand

M0, M1, M2 = T.mv(0), T.mv(1), T.mv(2)
NEG_BODY = T.imp(M0, T.BOT)


def N(body, *args, keys=None):
    keys = keys if keys is not None else range(len(args))
    return ('N', body, tuple(zip(keys, args)))


def notation_bodies(rng, k):
    neg = lambda a: N(NEG_BODY, a)
    x = rng.choice(k.evars)
    bodies = [
        (NEG_BODY, 1),
        (T.imp(neg(M0), M1), 2),                              # or
        (neg(T.imp(M0, neg(M1))), 2),                         # and
        (T.BOT, 0),
        (neg(N(T.BOT)), 0),                                   # top
        (T.app(T.sym(0), M0), 1),                             # ceil-like
        (neg(N(T.app(T.sym(0), M0), neg(M0))), 1),            # floor-like (nested notation)
        (neg(T.ex(x, neg(M0))), 1),                           # forall x
        (T.ex(x, T.imp(T.mv(0, ef=(x,)), M1)), 2),            # constrained argument
        (T.imp(M1, T.imp(M0, M1)), 2),
        (T.app(T.app(T.sym(1), M0), M2), 3),                  # argument 1 unused
    ]
    return bodies


def gen_ext(rng, k, depth=None, p_not=0.35, pool=None):
    """Extended term ('N' nodes allowed) whose full expansion is legal and well-formed."""
    if depth is None:
        depth = rng.randint(0, k.max_depth)
    if pool and rng.random() < 0.25:
        return rng.choice(pool)
    if depth > 0 and rng.random() < p_not:
        for _ in range(5):
            body, arity = rng.choice(notation_bodies(rng, k))
            keys = list(range(arity))
            r = rng.random()
            if arity and r < 0.12:
                keys = [i for i in keys if rng.random() < 0.6]      # partial map
            elif arity > 1 and r < 0.3:
                rng.shuffle(keys)                                   # keys not in sorted order
            args = [gen_ext(rng, k, depth - 1, p_not, pool) for _ in keys]
            t = ('N', body, tuple(zip(keys, args)))
            try:
                e = expand(t)
                if T.wf_deep(e):
                    return t
            except T.Abort:
                continue
    if depth > 0 and rng.random() < 0.5:
        l = gen_ext(rng, k, depth - 1, p_not, pool)
        r = gen_ext(rng, k, depth - 1, p_not, pool)
        if rng.random() < 0.2:
            return T.ex(rng.choice(k.evars), l)
        return T.imp(l, r) if rng.random() < 0.6 else T.app(l, r)
    for _ in range(6):
        t = gen_pattern(rng, k, depth, False, None)
        try:
            if T.wf_deep(expand(t)):
                return t
        except T.Abort:
            continue
    return T.evar(k.evars[0])


def emit_ext(t, out=None):
    """Byte code Interpreter.pattern is expected to produce for an extended term."""
    top = out is None
    if top:
        out = bytearray()
    k = t[0]
    if k == 'N':
        for _, a in t[2]:
            emit_ext(a, out)
        emit_ext(t[1], out)
        keys = [i for i, _ in t[2]]
        out += bytes([OP['Instantiate'], len(keys), *reversed(keys)])
    elif k in ('i', 'a'):
        emit_ext(t[1], out); emit_ext(t[2], out)
        out.append(OP['Implies'] if k == 'i' else OP['App'])
    elif k in ('E', 'M'):
        emit_ext(t[2], out)
        out += bytes([OP['Exists'] if k == 'E' else OP['Mu'], t[1]])
    elif k in ('es', 'ss'):
        emit_ext(t[3], out); emit_ext(t[1], out)
        out += bytes([OP['ESubst'] if k == 'es' else OP['SSubst'], t[2]])
    else:
        out += emit(t)
    return bytes(out) if top else None


class HistoryGen:
    def __init__(self, rng, adversarial=0.05, max_ops=40):
        self.rng = rng
        self.k = Knobs(rng)
        self.k.p_illformed = 0.0
        self.gm = R.Machine()
        self.ops = [[], [], []]
        self.claims = []
        self.dead = False
        self.p_bad = adversarial
        self.max_ops = max_ops
        self.pool = []
        self.free = 0
        self.partial_axioms = []
        self.near_pairs = []
        self.touch_stale = rng.random() < 0.03
        self.p_not = rng.choice([0.0, 0.2, 0.4, 0.6])
        self.w = {'axiom': rng.choice([1, 2, 4]), 'pattern': rng.choice([1, 2, 3]), 'prim': rng.choice([0, 1, 2]),
                  'inst': rng.choice([2, 4, 6]), 'instpat': rng.choice([1, 1, 2]), 'mp': rng.choice([2, 4, 6]),
                  'gen': rng.choice([0, 1, 3]), 'save': rng.choice([1, 2]), 'load': rng.choice([1, 2]),
                  'pop': rng.choice([0, 1]), 'publish': rng.choice([0, 1, 2]), 'genprobe': rng.choice([0, 1, 2])}

    # ---- plumbing
    # the tracker under test does not pop on publish_*: entries at or below a published one are
    # "stale" and must not be consumed (DESIGN.md 4/C04, finding D13).  `free` counts the entries
    # above the top-most stale one.
    NEED = {'implies': 2, 'app': 2, 'exists': 1, 'mu': 1, 'esubst': 2, 'ssubst': 2, 'mp': 2, 'gen': 1, 'pop': 1,
            'save': 1, 'publish_axiom': 1, 'publish_claim': 1, 'publish_proof': 1}
    PUSH = {'implies': 1, 'app': 1, 'exists': 1, 'mu': 1, 'esubst': 1, 'ssubst': 1, 'mp': 1, 'gen': 1, 'pop': 0,
            'save': 1, 'pattern': 1, 'evar': 1, 'svar': 1, 'symbol': 1, 'metavar': 1, 'prop1': 1, 'prop2': 1, 'prop3': 1,
            'quantifier': 1, 'load_term': 1}

    def op(self, o, expect):
        name = o[0]
        need = len(o[1]) + 1 if name in ('instantiate', 'instantiate_pattern') else self.NEED.get(name, 0)
        if need > self.free and not self.touch_stale:
            return False
        if name.startswith('publish'):
            self.free = 0
        elif name in ('instantiate', 'instantiate_pattern'):
            self.free = max(0, self.free - need) + 1
        else:
            self.free = max(0, self.free - need) + self.PUSH[name]
        self.ops[self.gm.phase].append(o)
        if self.dead:
            return True
        try:
            self.gm.run_chunk(bytes(expect))
        except T.Abort:
            self.dead = True
        return True

    def ext(self, depth=None):
        return gen_ext(self.rng, self.k, depth, self.p_not, self.pool if self.rng.random() < 0.4 else None)

    def op_pattern(self, t):
        self.op(['pattern', t], emit_ext(t))

    def op_load(self, i):
        kd, t = self.gm.memory[i]
        first = self.gm.memory.index((kd, t))
        self.op(['load_term', kd, t], [OP['Load'], first])

    def proved_slots(self):
        return [i for i, (kd, _) in enumerate(self.gm.memory) if kd == 'T' and i < 256]

    def remember(self, t):
        if t[0] in ('i', 'a'):
            for s in (t[1], t[2]):
                if s not in self.pool and T.size(s) <= 12 and T.wf_deep(s):
                    self.pool.append(s)
        while len(self.pool) > 12:
            self.pool.pop(0)

    # ---- phases
    def gamma(self):
        rng = self.rng
        from .gen_streams import valid_axiom_catalogue
        cat = valid_axiom_catalogue(rng, self.k)
        for _ in range(rng.randint(0, 4)):
            ax = rng.choice(cat) if rng.random() < 0.5 else self.ext()
            self.op_pattern(ax)
            if rng.random() < 0.1:
                self.op(['save'], [OP['Save']])
            self.op(['publish_axiom'], [OP['Publish']])
        if rng.random() < 0.25:
            self.partial_notation_axiom()
        if self.p_bad >= 0.2 and rng.random() < 0.4:
            self.near_miss_axioms()
        if rng.random() < 0.2:
            self.op_pattern(self.ext())
            self.op(['save'], [OP['Save']])
            if rng.random() < 0.5:
                self.op(['pop'], [OP['Pop']])

    def op_gen_probe(self):
        """exists_generalization over theorems whose consequent contains pending substitutions,
        binders and constrained metavariables (every arm of the toolkit's freshness test), with the
        variable chosen regardless of freshness in adversarial histories."""
        rng, k = self.rng, self.k
        x = rng.choice(k.evars)
        y = rng.choice([e for e in k.evars if e != x] or [(x + 1) % 250])
        X = x if x in (0, 1, 2) else rng.choice(k.svars)          # same *number* as the element variable where possible
        m, mf = T.mv(3), T.mv(3, ef=(x,))
        plugs = [T.imp(T.evar(x), T.evar(y)), T.app(T.evar(x), T.sym(0)), T.evar(y), T.evar(x), T.sym(0), T.mv(4), T.mv(4, ef=(x,)), T.ex(x, T.evar(x)), T.svar(X)]
        fam = [T.esub(m, x, rng.choice(plugs)), T.esub(m, y, rng.choice(plugs)), T.ssub(m, X, rng.choice(plugs)), T.ssub(mf, X, rng.choice(plugs)),
               T.esub(T.esub(m, y, T.evar(x)), x, rng.choice(plugs)), T.ssub(T.esub(m, y, T.sym(0)), X, rng.choice(plugs)), T.ex(x, m), T.ex(y, T.esub(m, x, rng.choice(plugs))),
               T.mu(X, T.app(T.svar(X), T.evar(x))), T.mu(X, T.app(T.svar(X), m)), mf, T.imp(mf, T.esub(mf, y, T.evar(x))), N(NEG_BODY, T.ssub(m, X, rng.choice(plugs)))]
        neg = lambda a: N(NEG_BODY, a)
        fam += [N(T.imp(neg(M0), M1), T.evar(x), T.evar(y)), N(T.imp(neg(M0), M1), T.evar(y), T.evar(x)), N(neg(T.imp(M0, neg(M1))), m, T.evar(x)),      # x in one argument only
                neg(T.evar(x)), N(T.app(T.app(T.sym(1), M0), M2), T.evar(y), T.evar(x), T.sym(0)), N(neg(T.ex(x, neg(M0))), T.app(T.evar(x), T.evar(y)))]
        P = rng.choice(fam)
        try:
            pe = expand(P)
        except T.Abort:
            return
        if not T.wf_deep(pe):
            return
        Q = rng.choice([T.sym(0), T.evar(y), T.mv(4, ef=(x,)), T.BOT])
        self.op_pattern(P); self.op_pattern(Q)           # delta = {0: P, 1: Q}
        self.op(['prop1'], [OP['Prop1']])
        self.op(['instantiate', [0, 1]], [OP['Instantiate'], 2, 1, 0])          # |- P -> (Q -> P)
        cons = T.imp(expand(Q), pe)
        cand = [x, y] + list(k.evars)
        if rng.random() > (0 if self.p_bad == 0 else max(0.25, self.p_bad * 2)):
            cand = [v for v in cand if T.e_fresh(cons, v)]
            if not cand:
                self.op(['pop'], [OP['Pop']])
                return
        v = rng.choice(cand)
        self.op(['gen', v], [OP['Generalization'], v])

    def near_miss(self, t):
        """A term that differs from the extended term t in one small way (for adversarial modus ponens)."""
        rng = self.rng
        k = t[0]
        r = rng.random()
        if k == 'N':
            args = list(t[2])
            body_ids = sorted(set(m[1] for m in T.metavars(expand(t[1]))))
            missing = [i for i in body_ids if i not in [a[0] for a in args]]
            if missing and r < 0.4:
                return ('N', t[1], tuple(args + [(missing[0], self.ext(depth=0))]))      # fuller map of the same definition
            if len(args) > 1 and r < 0.6:
                return ('N', t[1], tuple(args[:-1]))                                        # smaller map
            if args:
                j = rng.randrange(len(args))
                args[j] = (args[j][0], self.near_miss(args[j][1]))
                return ('N', t[1], tuple(args))
            return T.imp(t, t)
        if k in ('i', 'a'):
            if r < 0.5: return (k, self.near_miss(t[1]), t[2])
            return (k, t[1], self.near_miss(t[2]))
        if k in ('E', 'M'):
            return (k, t[1], self.near_miss(t[2]))
        if k == 'm':
            return T.mv(t[1], ef=tuple(t[2]) + (self.k.evars[0],)) if self.k.evars[0] not in t[2] else T.mv(t[1])
        if k == 'y': return T.sym((t[1] + 1) % 3)
        if k == 'e': return T.evar((t[1] + 1) % 4)
        if k == 's': return T.svar((t[1] + 1) % 3)
        return T.imp(t, T.BOT)

    def near_miss_axioms(self):
        """gamma: the axioms A -> B and A' where A' is a near miss of A (never equal modulo notation)."""
        rng = self.rng
        a = gen_ext(rng, self.k, rng.randint(1, 2), max(self.p_not, 0.5), None)
        if rng.random() < 0.5:
            body = rng.choice([T.imp(M0, M1), T.imp(M1, T.imp(M0, M1)), T.app(T.app(T.sym(1), M0), M1)])
            a = ('N', body, ((0, self.ext(depth=0)),) if rng.random() < 0.5 else ((0, self.ext(depth=0)), (1, self.ext(depth=0))))
        a2 = self.near_miss(a)
        try:
            ea, ea2 = expand(a), expand(a2)
        except T.Abort:
            return
        if ea == ea2 or not T.wf_deep(ea) or not T.wf_deep(ea2):
            return
        b = self.ext(depth=1)
        for ax in (T.imp(a, b), a2):
            self.op_pattern(ax)
            self.op(['publish_axiom'], [OP['Publish']])
        self.near_pairs.append((expand(T.imp(a, b)), ea2))

    def partial_notation_axiom(self):
        """gamma: an axiom that is a *partial* notation application (one metavariable of the
        definition left open); the proof phase instantiates the open one with a plug that mentions
        the bound one (composition of the two maps)."""
        rng = self.rng
        a, b = rng.sample([0, 1, 2, 3], 2)
        ma, mb = T.mv(a), T.mv(b)
        body = rng.choice([T.imp(ma, mb), T.imp(mb, T.imp(ma, mb)), T.app(T.sym(0), T.imp(ma, mb)), T.imp(N(NEG_BODY, ma), mb) if a == 0 else T.imp(ma, mb)])
        arg = self.ext(depth=rng.randint(0, 1))
        ax = ('N', body, ((a, arg),))
        try:
            expand(ax)
        except T.Abort:
            return
        self.partial_axioms.append((ax, a, b))
        self.op_pattern(ax)
        self.op(['publish_axiom'], [OP['Publish']])

    def op_partial_inst(self):
        rng = self.rng
        if not self.partial_axioms:
            return
        ax, a, b = rng.choice(self.partial_axioms)
        t = expand(ax)
        if ('T', t) not in self.gm.memory:
            return
        plug = rng.choice([T.mv(a), T.imp(T.mv(a), T.mv(b)), T.imp(T.mv(a), self.ext(depth=1)), N(NEG_BODY, T.mv(a))])
        self.op_pattern(plug)
        self.op_load(self.gm.memory.index(('T', t)))
        self.op(['instantiate', [b]], [OP['Instantiate'], 1, b])

    def source(self):
        rng = self.rng
        slots = self.proved_slots()
        if slots and rng.random() < 0.6:
            i = rng.choice(slots)
            self.op_load(i)
            return self.gm.memory[i][1]
        name = rng.choice(['prop1', 'prop2', 'prop3', 'prop1', 'prop2', 'quantifier'])
        self.op([name], [OP[{'prop1': 'Prop1', 'prop2': 'Prop2', 'prop3': 'Prop3', 'quantifier': 'Quantifier'}[name]]])
        return {'prop1': R.PROP1, 'prop2': R.PROP2, 'prop3': R.PROP3, 'quantifier': R.QUANT}[name]

    def prim(self):
        """Pattern built by primitive constructor calls (not through pattern())."""
        rng, k = self.rng, self.k
        t = gen_pattern(rng, k, rng.randint(0, 2))
        if not T.wf_deep(t):
            t = T.evar(k.evars[0])
        self._prim(t)

    def _prim(self, t):
        kd = t[0]
        if kd == 'e': self.op(['evar', t[1]], [OP['EVar'], t[1]])
        elif kd == 's': self.op(['svar', t[1]], [OP['SVar'], t[1]])
        elif kd == 'y': self.op(['symbol', t[1]], [OP['Symbol'], t[1]])
        elif kd == 'm': self.op(['metavar', *t[1:]], emit(t))
        elif kd in ('i', 'a'):
            self._prim(t[1]); self._prim(t[2])
            self.op(['implies' if kd == 'i' else 'app'], [OP['Implies'] if kd == 'i' else OP['App']])
        elif kd in ('E', 'M'):
            self._prim(t[2])
            self.op(['exists' if kd == 'E' else 'mu', t[1]], [OP['Exists'] if kd == 'E' else OP['Mu'], t[1]])
        elif kd in ('es', 'ss'):
            self._prim(t[3]); self._prim(t[1])
            self.op(['esubst' if kd == 'es' else 'ssubst', t[2]], [OP['ESubst'] if kd == 'es' else OP['SSubst'], t[2]])

    def plugs_for(self, term, chosen):
        rng = self.rng
        mvs = T.metavars(term)
        plugs = []
        for i in chosen:
            cons = [m for m in mvs if m[1] == i]
            p = None
            for _ in range(8):
                p = self.ext(depth=rng.randint(0, 2))
                if rng.random() < self.p_bad:
                    break
                try:
                    pe = expand(p)
                    for c in cons:
                        T.instantiate(c, [i], [pe])
                    T.instantiate(term, [i], [pe])      # also rules out capture inside pending substitutions
                    break
                except T.Abort:
                    continue
            else:
                if self.p_bad == 0:
                    return None
            plugs.append(p)
        if self.p_bad == 0:
            try:
                T.instantiate(term, list(chosen), [expand(p) for p in plugs])
            except T.Abort:
                return None
        return plugs

    def op_inst(self):
        rng = self.rng
        slots = self.proved_slots()
        src = None
        if slots and rng.random() < 0.6:
            i = rng.choice(slots)
            src = (['load_term', self.gm.memory[i][0], self.gm.memory[i][1]], [OP['Load'], i], self.gm.memory[i][1])
        if src is None:
            name = rng.choice(['prop1', 'prop2', 'prop3', 'quantifier'])
            ins = {'prop1': 'Prop1', 'prop2': 'Prop2', 'prop3': 'Prop3', 'quantifier': 'Quantifier'}[name]
            src = ([name], [OP[ins]], {'prop1': R.PROP1, 'prop2': R.PROP2, 'prop3': R.PROP3, 'quantifier': R.QUANT}[name])
        term = src[2]
        ids = sorted(set(m[1] for m in T.metavars(term)))
        chosen = [i for i in ids if rng.random() < 0.8]
        if rng.random() < 0.1:
            extra = rng.choice(self.k.mvars + [7])
            if extra not in chosen:
                chosen.append(extra)
        rng.shuffle(chosen)
        if not chosen and rng.random() < 0.8:
            chosen = ids[:1] or [0]
        plugs = self.plugs_for(term, chosen)
        if plugs is None:
            return
        # delta order = push order; the serialiser is expected to emit the keys reversed
        for p in plugs:
            self.op_pattern(p)
        self.op(src[0], src[1])
        self.op(['instantiate', chosen], [OP['Instantiate'], len(chosen), *reversed(chosen)])

    def op_instpat(self):
        rng = self.rng
        body = self.ext(depth=rng.randint(0, 2))
        try:
            be = expand(body)
        except T.Abort:
            return
        ids = sorted(set(m[1] for m in T.metavars(be)))
        chosen = [i for i in ids if rng.random() < 0.7]
        rng.shuffle(chosen)
        plugs = self.plugs_for(be, chosen)
        if plugs is None:
            return
        for p in plugs:
            self.op_pattern(p)
        self.op_pattern(body)
        self.op(['instantiate_pattern', chosen], [OP['Instantiate'], len(chosen), *reversed(chosen)])
        # a second, partial instantiation on top of the first (composition of notation maps)
        if rng.random() < 0.4 and not self.dead and self.gm.stack:
            top = self.gm.stack[-1][1]
            ids2 = sorted(set(m[1] for m in T.metavars(top)))
            ch2 = [i for i in ids2 if rng.random() < 0.7]
            if ch2:
                # the plugs must sit *below* the term: rebuild in the right order
                self.op(['pop'], [OP['Pop']])
                plugs2 = self.plugs_for(top, ch2)
                if plugs2 is None:
                    return
                for p in plugs2:
                    self.op_pattern(p)
                for p in plugs:
                    self.op_pattern(p)
                self.op_pattern(body)
                self.op(['instantiate_pattern', chosen], [OP['Instantiate'], len(chosen), *reversed(chosen)])
                self.op(['instantiate_pattern', ch2], [OP['Instantiate'], len(ch2), *reversed(ch2)])

    def op_mp(self):
        rng = self.rng
        mem = self.gm.memory
        slots = self.proved_slots()
        pairs = [(i, j) for i in slots for j in slots if mem[i][1][0] == 'i' and mem[i][1][1] == mem[j][1]]
        if pairs and rng.random() < 0.6:
            i, j = rng.choice(pairs)
            self.op_load(i); self.op_load(j)
            self.op(['mp'], [OP['ModusPonens']])
            return
        if not slots and rng.random() > self.p_bad:
            self.source()
            self.op(['save'], [OP['Save']])
            slots = self.proved_slots()
        if slots and rng.random() > self.p_bad:
            j = rng.choice(slots)
            a = mem[j][1]
            if not T.wf_deep(a):        # machine-made terms can contain redundant substitutions that no instruction constructs
                return
            b = self.ext(depth=rng.randint(0, 2))
            self.op_pattern(a); self.op_pattern(b)           # delta = {0: a, 1: b}
            self.op(['prop1'], [OP['Prop1']])
            self.op(['instantiate', [0, 1]], [OP['Instantiate'], 2, 1, 0])
            self.op_load(j)
            self.op(['mp'], [OP['ModusPonens']])
            return
        if self.near_pairs and rng.random() < 0.7:
            maj, mnr = rng.choice(self.near_pairs)
            if ('T', maj) in mem and ('T', mnr) in mem:
                self.op_load(mem.index(('T', maj))); self.op_load(mem.index(('T', mnr)))
                self.op(['mp'], [OP['ModusPonens']])
                return
        self.source(); self.source()
        self.op(['mp'], [OP['ModusPonens']])

    def op_gen(self):
        rng = self.rng
        t = self.source()
        if t[0] != 'i' and rng.random() > self.p_bad:
            self.op(['pop'], [OP['Pop']])
            slots = [i for i in self.proved_slots() if self.gm.memory[i][1][0] == 'i']
            if not slots:
                self.op(['prop1'], [OP['Prop1']]); t = R.PROP1
            else:
                i = rng.choice(slots)
                self.op_load(i); t = self.gm.memory[i][1]
        cand = list(self.k.evars) + [5]
        if rng.random() > self.p_bad * 2:
            cand = [x for x in cand if t[0] == 'i' and T.e_fresh(t[2], x)]
            if not cand:
                return
        else:
            bad = [x for x in cand if t[0] == 'i' and not T.e_fresh(t[2], x)]
            cand = bad or cand
        v = rng.choice(cand)
        self.op(['gen', v], [OP['Generalization'], v])

    def proof_ops(self):
        rng = self.rng
        names = list(self.w)
        weights = [self.w[n] for n in names]
        for _ in range(rng.randint(3, self.max_ops)):
            if self.dead:
                break
            o = rng.choices(names, weights)[0]
            st = self.gm.stack
            if o == 'axiom': self.source()
            elif o == 'pattern': self.op_pattern(self.ext())
            elif o == 'prim': self.prim()
            elif o == 'inst': self.op_inst()
            elif o == 'instpat':
                if self.partial_axioms and rng.random() < 0.5: self.op_partial_inst()
                else: self.op_instpat()
            elif o == 'mp': self.op_mp()
            elif o == 'gen': self.op_gen()
            elif o == 'genprobe': self.op_gen_probe()
            elif o == 'save':
                if st: self.op(['save'], [OP['Save']])
            elif o == 'load':
                n = len(self.gm.memory)
                if n:
                    i = rng.randrange(min(n, 256))
                    self.op_load(i)
            elif o == 'pop':
                if st: self.op(['pop'], [OP['Pop']])
            elif o == 'publish':
                if st and st[-1][0] == 'T' and st[-1][1] not in self.claims and T.wf_deep(st[-1][1]):
                    t = st[-1][1]
                    self.claims.append(t)
                    self.gm.claims.append(t)
                    self.op(['publish_proof'], [OP['Publish']])
            if not self.dead and self.gm.stack and self.gm.stack[-1][0] == 'T':
                self.remember(self.gm.stack[-1][1])
                if rng.random() < 0.5 and len(self.gm.memory) < 250:
                    self.op(['save'], [OP['Save']])
            if not self.dead and len(self.gm.stack) > 6 and rng.random() < 0.7:
                self.op(['pop'], [OP['Pop']])

    def build(self):
        self.gamma()
        self.gm.next_phase()
        self.gm.next_phase()
        self.free = 0
        self.proof_ops()
        # claims are declared in publication order; the claim phase publishes them reversed
        cops = []
        for t in reversed(self.claims):
            cops.append(['pattern', t])
            cops.append(['publish_claim'])
        return {'claims': self.claims, 'ops': [self.ops[0], cops, self.ops[2]], 'touch_stale': self.touch_stale}
