"""R3 (part 1): the term ADT of the reference models and the documented judgements.

Terms are nested tuples, sharing no code with either implementation:

  ('e', n) ('s', n) ('y', n)                     element var, set var, symbol
  ('i', l, r) ('a', l, r)                        implication, application
  ('E', v, p) ('M', v, p)                        exists, mu
  ('m', id, ef, sf, pos, neg, holes)             metavariable, five constraint tuples
  ('es', pat, v, plug) ('ss', pat, v, plug)      pending substitutions

The judgement functions below are a transcription of docs/proof-language.md
("Terms" section), constructor by constructor.
"""
from __future__ import annotations

import sys

sys.setrecursionlimit(3000)


# Deviation switches.  All on = the reference reading (DESIGN.md 3.1).  Turning one off gives the
# reading under which a known deviation of the implementation disappears; the checks use this
# only to *name* a disagreement (signature), never to excuse it.
ALL_FLAGS = frozenset({'holes', 'xcap_E', 'xcap_M', 'stance7', 'strict_inst'})
FLAGS = set(ALL_FLAGS)


class Abort(Exception):
    """The documented machine aborts (verification fails)."""


def tup(x):
    """JSON round trip: nested lists back to nested tuples."""
    if isinstance(x, (list, tuple)):
        return tuple(tup(y) for y in x)
    return x


def evar(n): return ('e', n)
def svar(n): return ('s', n)
def sym(n): return ('y', n)
def imp(l, r): return ('i', l, r)
def app(l, r): return ('a', l, r)
def ex(v, p): return ('E', v, p)
def mu(v, p): return ('M', v, p)
def mv(i, ef=(), sf=(), pos=(), neg=(), holes=()): return ('m', i, tuple(ef), tuple(sf), tuple(pos), tuple(neg), tuple(holes))
def esub(p, v, plug): return ('es', p, v, plug)
def ssub(p, v, plug): return ('ss', p, v, plug)


BOT = mu(0, svar(0))
def neg(p): return imp(p, BOT)


# ---------------------------------------------------------------- judgements
def e_fresh(p, x):
    k = p[0]
    if k == 'e': return p[1] != x
    if k in ('s', 'y'): return True
    if k in ('i', 'a'): return e_fresh(p[1], x) and e_fresh(p[2], x)
    if k == 'E': return p[1] == x or e_fresh(p[2], x)
    if k == 'M': return e_fresh(p[2], x)
    if k == 'm': return x in p[2]
    if k == 'es':
        if x == p[2]: return e_fresh(p[3], x)
        return e_fresh(p[1], x) and e_fresh(p[3], x)
    if k == 'ss': return e_fresh(p[1], x) and e_fresh(p[3], x)
    raise ValueError(k)


def s_fresh(p, x):
    k = p[0]
    if k == 's': return p[1] != x
    if k in ('e', 'y'): return True
    if k in ('i', 'a'): return s_fresh(p[1], x) and s_fresh(p[2], x)
    if k == 'E': return s_fresh(p[2], x)
    if k == 'M': return p[1] == x or s_fresh(p[2], x)
    if k == 'm': return x in p[3]
    if k == 'es': return s_fresh(p[1], x) and s_fresh(p[3], x)
    if k == 'ss':
        if x == p[2]: return s_fresh(p[3], x)
        return s_fresh(p[1], x) and s_fresh(p[3], x)
    raise ValueError(k)


def positive(p, x):
    k = p[0]
    if k in ('e', 's', 'y'): return True
    if k == 'i': return negative(p[1], x) and positive(p[2], x)
    if k == 'a': return positive(p[1], x) and positive(p[2], x)
    if k == 'E': return positive(p[2], x)
    if k == 'M': return p[1] == x or positive(p[2], x)
    if k == 'm': return x in p[4]
    if k == 'es': return positive(p[1], x) and s_fresh(p[3], x)
    if k == 'ss':
        pat, var, plug = p[1], p[2], p[3]
        plug_pos = s_fresh(plug, x) or (positive(pat, var) and positive(plug, x)) or (negative(pat, var) and negative(plug, x))
        if x == var: return plug_pos
        return positive(pat, x) and plug_pos
    raise ValueError(k)


def negative(p, x):
    k = p[0]
    if k in ('e', 'y'): return True
    if k == 's': return p[1] != x
    if k == 'i': return positive(p[1], x) and negative(p[2], x)
    if k == 'a': return negative(p[1], x) and negative(p[2], x)
    if k == 'E': return negative(p[2], x)
    if k == 'M': return p[1] == x or negative(p[2], x)
    if k == 'm': return x in p[5]
    if k == 'es': return negative(p[1], x) and s_fresh(p[3], x)
    if k == 'ss':
        pat, var, plug = p[1], p[2], p[3]
        plug_neg = s_fresh(plug, x) or (positive(pat, var) and negative(plug, x)) or (negative(pat, var) and positive(plug, x))
        if x == var: return plug_neg
        return negative(pat, x) and plug_neg
    raise ValueError(k)


def app_ctx_hole(p, x):
    """`pattern.app_ctx_holes(evar)` of the documented Instantiate check: p is an
    application context whose hole is the element variable x (textbook definition;
    best effort on meta-patterns: only a metavariable that itself declares the hole
    qualifies)."""
    k = p[0]
    if k == 'e': return p[1] == x
    if k == 'a':
        return (app_ctx_hole(p[1], x) and e_fresh(p[2], x)) or (app_ctx_hole(p[2], x) and e_fresh(p[1], x))
    if k == 'm': return x in p[6]
    return False


def wf_construct(p):
    """Well-formedness of the outermost constructor, sub-terms assumed well-formed."""
    k = p[0]
    if k == 'm':
        return not any(h in p[2] for h in p[6])
    if k == 'M':
        return positive(p[2], p[1])
    if k == 'es':
        if p[3] == ('e', p[2]): return False
        if e_fresh(p[1], p[2]): return False
        return p[1][0] in ('m', 'es', 'ss')
    if k == 'ss':
        if p[3] == ('s', p[2]): return False
        if s_fresh(p[1], p[2]): return False
        return p[1][0] in ('m', 'es', 'ss')
    return True


def wf_deep(p):
    k = p[0]
    if k in ('e', 's', 'y'): return True
    if k == 'm': return wf_construct(p)
    if k in ('i', 'a'): return wf_deep(p[1]) and wf_deep(p[2])
    if k in ('E', 'M'): return wf_deep(p[2]) and wf_construct(p)
    if k in ('es', 'ss'): return wf_deep(p[1]) and wf_deep(p[3]) and wf_construct(p)
    raise ValueError(k)


# ------------------------------------------------------------- substitution
def apply_esubst(p, x, plug):
    k = p[0]
    if k == 'e': return plug if p[1] == x else p
    if k in ('s', 'y'): return p
    if k in ('i', 'a'): return (k, apply_esubst(p[1], x, plug), apply_esubst(p[2], x, plug))
    if k == 'E':
        if p[1] == x: return p
        if not e_fresh(plug, p[1]):
            raise Abort('esubst would capture element variable %d' % p[1])
        return ('E', p[1], apply_esubst(p[2], x, plug))
    if k == 'M':
        # stance 4: substitution never captures.  A set variable of the plug is captured
        # only if the substituted variable can occur under the binder.
        if 'xcap_M' in FLAGS and not s_fresh(plug, p[1]) and not e_fresh(p[2], x):
            raise Abort('esubst would capture set variable %d' % p[1])
        return ('M', p[1], apply_esubst(p[2], x, plug))
    if k == 'm':
        if x in p[2] and 'stance7' in FLAGS: return p          # stance 7
        return ('es', p, x, plug)
    if k in ('es', 'ss'): return ('es', p, x, plug)
    raise ValueError(k)


def apply_ssubst(p, x, plug):
    k = p[0]
    if k == 's': return plug if p[1] == x else p
    if k in ('e', 'y'): return p
    if k in ('i', 'a'): return (k, apply_ssubst(p[1], x, plug), apply_ssubst(p[2], x, plug))
    if k == 'M':
        if p[1] == x: return p
        if not s_fresh(plug, p[1]):
            raise Abort('ssubst would capture set variable %d' % p[1])
        return ('M', p[1], apply_ssubst(p[2], x, plug))
    if k == 'E':
        if 'xcap_E' in FLAGS and not e_fresh(plug, p[1]) and not s_fresh(p[2], x):
            raise Abort('ssubst would capture element variable %d' % p[1])
        return ('E', p[1], apply_ssubst(p[2], x, plug))
    if k == 'm':
        if x in p[3] and 'stance7' in FLAGS: return p          # stance 7
        return ('ss', p, x, plug)
    if k in ('es', 'ss'): return ('ss', p, x, plug)
    raise ValueError(k)


def instantiate(p, ids, plugs, check_holes=True):
    """Simultaneous instantiation with the documented constraint checks."""
    r = _inst(p, ids, plugs, check_holes)
    return p if r is None else r


def _inst(p, ids, plugs, check_holes):
    # returns None when no listed metavariable occurs in p (then p is unchanged)
    k = p[0]
    if k in ('e', 's', 'y'): return None
    if k == 'm':
        if p[1] in ids:
            plug = plugs[ids.index(p[1])]
            for x in p[2]:
                if not e_fresh(plug, x): raise Abort('instantiation breaks e_fresh %d of metavar %d' % (x, p[1]))
            for x in p[3]:
                if not s_fresh(plug, x): raise Abort('instantiation breaks s_fresh %d of metavar %d' % (x, p[1]))
            for x in p[4]:
                if not positive(plug, x): raise Abort('instantiation breaks positive %d of metavar %d' % (x, p[1]))
            for x in p[5]:
                if not negative(plug, x): raise Abort('instantiation breaks negative %d of metavar %d' % (x, p[1]))
            if check_holes and 'holes' in FLAGS:
                for x in p[6]:
                    if not app_ctx_hole(plug, x): raise Abort('instantiation breaks app_ctx_hole %d of metavar %d' % (x, p[1]))
            return plug
        return None
    if k in ('i', 'a'):
        l, r = _inst(p[1], ids, plugs, check_holes), _inst(p[2], ids, plugs, check_holes)
        if l is None and r is None: return None
        return (k, p[1] if l is None else l, p[2] if r is None else r)
    if k in ('E', 'M'):
        s = _inst(p[2], ids, plugs, check_holes)
        if s is None: return None
        return (k, p[1], s)
    if k in ('es', 'ss'):
        a, b = _inst(p[1], ids, plugs, check_holes), _inst(p[3], ids, plugs, check_holes)
        if a is None and b is None: return None
        a = p[1] if a is None else a
        b = p[3] if b is None else b
        return apply_esubst(a, p[2], b) if k == 'es' else apply_ssubst(a, p[2], b)
    raise ValueError(k)


def metavars(p, acc=None):
    if acc is None: acc = []
    k = p[0]
    if k == 'm':
        if p not in acc: acc.append(p)
    elif k in ('i', 'a'):
        metavars(p[1], acc); metavars(p[2], acc)
    elif k in ('E', 'M'):
        metavars(p[2], acc)
    elif k in ('es', 'ss'):
        metavars(p[1], acc); metavars(p[3], acc)
    return acc


def size(p):
    k = p[0]
    if k in ('e', 's', 'y', 'm'): return 1
    if k in ('i', 'a'): return 1 + size(p[1]) + size(p[2])
    if k in ('E', 'M'): return 1 + size(p[2])
    return 1 + size(p[1]) + size(p[3])


# --------------------------------------------------------------------- dump
def _ids(l): return '[' + ','.join(str(x) for x in l) + ']'


def show(p):
    k = p[0]
    if k in ('e', 's', 'y'): return '%s%d' % (k, p[1])
    if k in ('i', 'a'): return '(%s %s %s)' % (k, show(p[1]), show(p[2]))
    if k in ('E', 'M'): return '(%s%d %s)' % (k, p[1], show(p[2]))
    if k == 'm': return '(m%d %s%s%s%s%s)' % (p[1], _ids(p[2]), _ids(p[3]), _ids(p[4]), _ids(p[5]), _ids(p[6]))
    if k in ('es', 'ss'): return '(%s %s %d %s)' % (k, show(p[1]), p[2], show(p[3]))
    raise ValueError(k)


def parse(s):
    """Inverse of show (used on dumps coming back from the Rust harness)."""
    pos = 0

    def num():
        nonlocal pos
        st = pos
        while pos < len(s) and s[pos].isdigit(): pos += 1
        return int(s[st:pos])

    def ids():
        nonlocal pos
        assert s[pos] == '['; pos += 1
        out = []
        while s[pos] != ']':
            out.append(num())
            if s[pos] == ',': pos += 1
        pos += 1
        return tuple(out)

    def term():
        nonlocal pos
        c = s[pos]
        if c in 'esy':
            pos += 1
            return (c, num())
        assert c == '(', (s, pos)
        pos += 1
        if s.startswith('es ', pos) or s.startswith('ss ', pos):
            k = s[pos:pos + 2]; pos += 3
            a = term(); pos += 1
            v = num(); pos += 1
            b = term(); pos += 1
            return (k, a, v, b)
        c = s[pos]
        if c in 'ia':
            pos += 2
            a = term(); pos += 1
            b = term(); pos += 1
            return (c, a, b)
        if c in 'EM':
            pos += 1
            v = num(); pos += 1
            b = term(); pos += 1
            return (c, v, b)
        if c == 'm':
            pos += 1
            i = num(); pos += 1
            l = [ids() for _ in range(5)]
            pos += 1
            return ('m', i, *l)
        raise ValueError((s, pos))

    t = term()
    assert pos == len(s), (s, pos)
    return t
