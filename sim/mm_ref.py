"""R4 -- Metamath side, written from the Metamath book (appendix B and section 4):

* number <-> letters codec for compressed proofs, label-list splitter, decoder;
* a small verifier for normal/compressed proofs of the generated fragment (floating and
  essential hypotheses in database order, substitution by unification of the mandatory
  floating hypotheses; the fragment has no $d);
* a proof-first generator of databases in the supported fragment with a random valid
  derivation of the target, and compression of that derivation in several layouts.

Terms: ('v', name) | (const, arg, ...) with const a string such as '\\imp'.
"""
from __future__ import annotations

import string

# ------------------------------------------------------------------ appendix B codec
LS = 'ABCDEFGHIJKLMNOPQRST'
MS = 'UVWXY'


def encode_number(n):
    """n >= 1 -> letters (A-T least significant digit 1..20, U-Y higher digits 1..5, base 5)."""
    assert n >= 1
    n -= 1
    out = LS[n % 20]
    n //= 20
    while n > 0:
        n -= 1
        out = MS[n % 5] + out
        n //= 5
    return out


def decode_letters(letters):
    """Letter string -> list of numbers and 'Z' marks (appendix B)."""
    out, acc = [], 0
    for ch in letters:
        if ch in LS:
            out.append(acc * 20 + LS.index(ch) + 1)
            acc = 0
        elif ch in MS:
            acc = acc * 5 + MS.index(ch) + 1
        elif ch == 'Z':
            if acc:
                raise ValueError('Z inside a number')
            out.append('Z')
        elif ch.isspace():
            continue
        else:
            raise ValueError('bad letter %r' % ch)
    if acc:
        raise ValueError('incomplete number at end of proof')
    return out


def split_compressed(tokens):
    """tokens of a compressed proof -> (label list, letter string)."""
    assert tokens[0] == '('
    j = tokens.index(')')
    return tokens[1:j], ''.join(tokens[j + 1:])


# ------------------------------------------------------------------------ terms
def tshow(t):
    if t[0] == 'v':
        return t[1]
    if len(t) == 1:
        return t[0]
    return '( ' + ' '.join([t[0]] + [tshow(a) for a in t[1:]]) + ' )'


def tvars(t, acc=None):
    if acc is None:
        acc = []
    if t[0] == 'v':
        if t[1] not in acc:
            acc.append(t[1])
    else:
        for a in t[1:]:
            tvars(a, acc)
    return acc


def tsubst(t, s):
    if t[0] == 'v':
        return s.get(t[1], t)
    return (t[0],) + tuple(tsubst(a, s) for a in t[1:])


def tsize(t):
    return 1 if t[0] == 'v' else 1 + sum(tsize(a) for a in t[1:])


# --------------------------------------------------------------------- database
class DB:
    """The generated fragment.  floats: ordered list of (label, var).  syntax: label -> term
    (a '#Pattern' axiom).  notations: name -> (args, expansion term).  axioms: label -> term.
    rules: label -> ([ (elabel, term) ...], conclusion)."""

    def __init__(self):
        self.consts = ['#Pattern', '|-', '\\imp', '(', ')']
        self.vars = []
        self.floats = []
        self.syntax = {}          # label -> term
        self.sugar = {}           # label -> (lhs term, rhs term)
        self.axioms = {}          # label -> term ('|-' statement)
        self.rules = {}           # label -> (essentials [(label, term)], conclusion)
        self.order = []           # declaration order of assertion labels
        self.target = None        # (label, term, proof tokens)

    def float_label(self, var):
        for l, v in self.floats:
            if v == var:
                return l
        raise KeyError(var)

    def mandatory_floats(self, terms):
        used = []
        for t in terms:
            tvars(t, used)
        return [(l, v) for l, v in self.floats if v in used]

    def text(self, proof_tokens, width=None, layout_rng=None):
        out = []
        out.append('$c ' + ' '.join(self.consts) + ' $.')
        out.append('$v ' + ' '.join(self.vars) + ' $.')
        for l, v in self.floats:
            out.append('%s $f #Pattern %s $.' % (l, v))
        for l in self.order:
            if l in self.syntax:
                out.append('%s $a #Pattern %s $.' % (l, tshow(self.syntax[l])))
            elif l in self.sugar:
                out.append('%s $a #Notation %s %s $.' % (l, tshow(self.sugar[l][0]), tshow(self.sugar[l][1])))
            elif l in self.axioms:
                out.append('%s $a |- %s $.' % (l, tshow(self.axioms[l])))
            elif l in self.rules:
                es, c = self.rules[l]
                out.append('${')
                for el, et in es:
                    out.append('    %s $e |- %s $.' % (el, tshow(et)))
                out.append('    %s $a |- %s $.' % (l, tshow(c)))
                out.append('$}')
        tl, tt, _ = self.target
        toks = list(proof_tokens)
        if layout_rng is not None:
            # seeded whitespace / line layout of the proof
            pieces = []
            for tk in toks:
                if all(c in LS + MS + 'Z' for c in tk) and len(tk) > 3 and tk not in ('(', ')'):
                    # split the letter string at random places
                    i = 0
                    while i < len(tk):
                        j = i + layout_rng.randint(1, max(1, len(tk) // 2))
                        pieces.append(tk[i:j]); i = j
                else:
                    pieces.append(tk)
            seps = [layout_rng.choice([' ', '  ', '\n  ', '\t', ' \n']) for _ in pieces]
            body = ''.join(p + s for p, s in zip(pieces, seps))
        else:
            body = ' '.join(toks)
        for dl, dt in getattr(self, 'decoys', []):
            # another provable statement carrying the very same proof text (over other variables)
            out.append('%s $p |- %s $= %s $.' % (dl, tshow(dt), body))
        out.append('%s $p |- %s $= %s $.' % (tl, tshow(tt), body))
        return '\n'.join(out) + '\n'


# -------------------------------------------------------------------- verifier
class VerifyError(Exception):
    pass


def hyps_of(db, label, target_terms=None):
    """Mandatory hypotheses of an assertion, in database order: floats then essentials
    (every $f of the fragment is global and declared before the assertions)."""
    if label in db.syntax:
        terms, es, concl, tc = [db.syntax[label]], [], db.syntax[label], '#Pattern'
    elif label in db.axioms:
        terms, es, concl, tc = [db.axioms[label]], [], db.axioms[label], '|-'
    elif label in db.rules:
        es, concl = db.rules[label]
        terms, tc = [t for _, t in es] + [concl], '|-'
    else:
        raise VerifyError('unknown assertion ' + label)
    return db.mandatory_floats(terms), es, concl, tc


def run_steps(db, steps):
    """steps: list of labels (normal proof) -> final stack of (typecode, term)."""
    stack = []
    fl = {l: v for l, v in db.floats}
    for lab in steps:
        if isinstance(lab, tuple):       # ('stmt', typecode, term): a saved statement re-pushed
            stack.append((lab[1], lab[2]))
            continue
        if lab in fl:
            stack.append(('#Pattern', ('v', fl[lab])))
            continue
        floats, es, concl, tc = hyps_of(db, lab)
        n = len(floats) + len(es)
        if len(stack) < n:
            raise VerifyError('stack underflow at ' + lab)
        args = stack[len(stack) - n:]
        del stack[len(stack) - n:]
        s = {}
        for (fl_l, v), (atc, at) in zip(floats, args):
            if atc != '#Pattern':
                raise VerifyError('floating hypothesis %s given a %s' % (fl_l, atc))
            s[v] = at
        for (el, et), (atc, at) in zip(es, args[len(floats):]):
            if atc != '|-' or at != tsubst(et, s):
                raise VerifyError('essential hypothesis %s of %s not met' % (el, lab))
        stack.append((tc, tsubst(concl, s)))
    return stack


def decompress(db, target_term, labels, letters):
    """Compressed proof -> list of step items for run_steps, following appendix B: numbers
    index mandatory hypotheses of the target (database order), then the listed labels, then the
    Z-marked steps."""
    mand = [l for l, _ in db.mandatory_floats([target_term])]
    table = mand + list(labels)
    items = decode_letters(letters)
    return table, items


def verify_compressed(db, target_term, labels, letters):
    table, items = decompress(db, target_term, labels, letters)
    stack, saved = [], []
    for it in items:
        if it == 'Z':
            if not stack:
                raise VerifyError('Z with empty stack')
            saved.append(stack[-1])
            continue
        if it <= len(table):
            stack = run_steps_on(db, stack, table[it - 1])
        else:
            k = it - len(table) - 1
            if k >= len(saved):
                raise VerifyError('reference to unsaved step %d' % it)
            stack.append(saved[k])
    if len(stack) != 1 or stack[0] != ('|-', target_term):
        raise VerifyError('proof does not end with the target: %r' % (stack[-1:],))
    return True


def run_steps_on(db, stack, lab):
    fl = {l: v for l, v in db.floats}
    if lab in fl:
        return stack + [('#Pattern', ('v', fl[lab]))]
    floats, es, concl, tc = hyps_of(db, lab)
    n = len(floats) + len(es)
    if len(stack) < n:
        raise VerifyError('stack underflow at ' + lab)
    args = stack[len(stack) - n:]
    s = {}
    for (fl_l, v), (atc, at) in zip(floats, args):
        if atc != '#Pattern':
            raise VerifyError('floating hypothesis %s given a %s' % (fl_l, atc))
        s[v] = at
    for (el, et), (atc, at) in zip(es, args[len(floats):]):
        if atc != '|-' or at != tsubst(et, s):
            raise VerifyError('essential hypothesis %s of %s not met' % (el, lab))
    return stack[:len(stack) - n] + [(tc, tsubst(concl, s))]


# ------------------------------------------------------------------- generator
class Gen:
    """Proof-first generation: a random proof tree is grown top-down from the target; the
    database is the set of syntax axioms, axioms and rules the tree uses."""

    def __init__(self, rng, nvars=None, odd_labels=False, canonical=True):
        self.rng = rng
        self.canonical = canonical
        self.db = DB()
        db = self.db
        n = rng.randint(2, 5) if nvars is None else max(2, nvars)
        style = rng.choice(['ph', 'ph', 'mixed'])
        names = ['ph%d' % i for i in range(n)]
        if style == 'mixed':
            pool = ['ph%d' % i for i in range(12)] + ['th0', 'th1', 'ps', 'ch']
            names = rng.sample(pool, n)
        db.vars = list(names)
        decl = list(names)
        rng.shuffle(decl)                       # $f order differs from $v order and from name order
        for v in decl:
            lab = '%s-is-pattern' % v
            db.floats.append((lab, v))
        # syntax: implication + constants / constructors / notations
        x, y = decl[0], decl[1]
        if rng.random() < 0.4:
            # other variables may be declared before or between the ones a statement uses (their relative order is kept)
            i, j = sorted(rng.sample(range(n), 2))
            x, y = decl[i], decl[j]
        if not canonical and rng.random() < 0.5:
            x, y = y, x          # a valid database may state the syntax axiom with the variables in either role
        self.add('imp-is-pattern', 'syntax', ('\\imp', ('v', x), ('v', y)))
        self.ctors = {'\\imp': 2}
        self.synlabel = {'\\imp': 'imp-is-pattern'}
        for i in range(rng.randint(1, 3)):
            c = '\\c%d' % i
            db.consts.append(c)
            self.ctors[c] = 0
            self.synlabel[c] = 'c%d-is-pattern' % i
            self.add(self.synlabel[c], 'syntax', (c,))
        for i in range(rng.randint(0, 3)):
            f = '\\f%d' % i
            ar = rng.randint(1, min(3, n))
            db.consts.append(f)
            self.ctors[f] = ar
            self.synlabel[f] = 'f%d-is-pattern' % i
            vs = rng.sample(decl, ar)           # positional order independent of declaration order
            self.add(self.synlabel[f], 'syntax', (f,) + tuple(('v', v) for v in vs))
        self.notations = {}
        for i in range(rng.randint(0, 2)):
            nm = '\\n%d' % i
            ar = rng.randint(1, min(2, n))
            db.consts.append(nm)
            vs = rng.sample(decl, ar)
            lhs = (nm,) + tuple(('v', v) for v in vs)
            rhs = self.term(2, vs_only=vs, no_notation=True)
            if rhs[0] == 'v' or rhs[0] == nm:
                rhs = ('\\imp', ('v', vs[0]), rhs)
            self.ctors[nm] = ar
            self.synlabel[nm] = 'n%d-is-pattern' % i
            self.notations[nm] = (vs, rhs)
            self.add(self.synlabel[nm], 'syntax', lhs)
            self.add('n%d-is-sugar' % i, 'sugar', (lhs, rhs))
        P0, P1, P2 = ('v', decl[0]), ('v', decl[1]), ('v', decl[2 % n])
        if n >= 4 and rng.random() < 0.4:
            i, j, l = sorted(rng.sample(range(n), 3))
            P0, P1, P2 = ('v', decl[i]), ('v', decl[j]), ('v', decl[l])
        if not canonical and rng.random() < 0.6:
            perm = [P0, P1, P2] if n >= 3 else [P0, P1]
            rng.shuffle(perm)
            P0, P1 = perm[0], perm[1]
            if n >= 3: P2 = perm[2]
        self.add('proof-rule-prop-1', 'axiom', ('\\imp', P0, ('\\imp', P1, P0)))
        if n >= 3:
            self.add('proof-rule-prop-2', 'axiom', ('\\imp', ('\\imp', P0, ('\\imp', P1, P2)), ('\\imp', ('\\imp', P0, P1), ('\\imp', P0, P2))))
        self.add('proof-rule-mp', 'rule', ([('proof-rule-mp.0', ('\\imp', P0, P1)), ('proof-rule-mp.1', P0)], P1))
        self.naxiom = 0
        self.nrule = 0

    def add(self, label, kind, body):
        db = self.db
        if kind == 'syntax': db.syntax[label] = body
        elif kind == 'sugar': db.sugar[label] = body
        elif kind == 'axiom': db.axioms[label] = body
        else: db.rules[label] = body
        db.order.append(label)

    def term(self, depth, vs_only=None, ground=False, no_notation=False):
        rng = self.rng
        vs = vs_only if vs_only is not None else self.db.vars
        if depth <= 0 or rng.random() < 0.3:
            if not ground and rng.random() < 0.55 and vs:
                return ('v', rng.choice(vs))
            consts = [c for c, a in self.ctors.items() if a == 0]
            return (rng.choice(consts),)
        heads = [c for c, a in self.ctors.items() if a > 0 and not (no_notation and c in getattr(self, 'notations', {}))]
        h = rng.choice(heads)
        return (h,) + tuple(self.term(depth - 1, vs_only, ground, no_notation) for _ in range(self.ctors[h]))

    # ---- wff construction proof of a term (RPN label list)
    def wff(self, t):
        db = self.db
        if t[0] == 'v':
            return [db.float_label(t[1])]
        lab = self.synlabel[t[0]]
        pat = db.syntax[lab]
        floats = db.mandatory_floats([pat])
        pos = {a[1]: i for i, a in enumerate(pat[1:])}
        out = []
        for _, v in floats:
            out += self.wff(t[1 + pos[v]])
        return out + [lab]

    def apply(self, label, subst, subproofs):
        """RPN for an assertion: wff proofs of the floats (database order), essentials, label."""
        floats, es, concl, tc = hyps_of(self.db, label)
        out = []
        for _, v in floats:
            out += self.wff(subst[v])
        for sp in subproofs:
            out += sp
        return out + [label]

    def antiunify(self, t, budget):
        """Replace random sub-terms of t by variables: returns (schema, substitution)."""
        rng = self.rng
        s = {}
        free = list(self.db.vars)
        rng.shuffle(free)

        def go(u, top):
            if free and not top and rng.random() < 0.35:
                for v, w in s.items():
                    if w == u:
                        return ('v', v)
                v = free.pop()
                s[v] = u
                return ('v', v)
            if u[0] == 'v':
                # a variable of the goal stays a schema variable mapped to itself (or is abstracted)
                for v, w in s.items():
                    if w == u:
                        return ('v', v)
                if free:
                    v = free.pop()
                    s[v] = u
                    return ('v', v)
                return None
            args = []
            for a in u[1:]:
                r = go(a, False)
                if r is None:
                    return None
                args.append(r)
            return (u[0],) + tuple(args)
        r = go(t, True)
        return r, s

    def prove(self, goal, depth):
        """Returns an RPN proof (list of labels) of |- goal, adding axioms/rules to the db."""
        rng = self.rng
        db = self.db
        r = rng.random()
        # prop-1 instance when the shape allows
        if goal[0] == '\\imp' and goal[2][0] == '\\imp' and goal[2][2] == goal[1] and r < 0.5:
            ax = db.axioms['proof-rule-prop-1']
            a, b = ax[1][1], ax[2][1][1]
            return self.apply('proof-rule-prop-1', {a: goal[1], b: goal[2][1]}, [])
        if depth > 0 and r < 0.35:
            # modus ponens with a random minor premise
            minor = self.term(rng.randint(0, 2), ground=rng.random() < 0.5)
            mp_es, mp_c = db.rules['proof-rule-mp']
            a, b = mp_es[0][1][1][1], mp_es[0][1][2][1]
            p_major = self.prove(('\\imp', minor, goal), depth - 1)
            p_minor = self.prove(minor, depth - 1)
            return self.apply('proof-rule-mp', {a: minor, b: goal}, [p_major, p_minor])
        if depth > 0 and r < 0.7:
            # a rule with k essential hypotheses whose conclusion generalises the goal
            schema, s = self.antiunify(goal, 3)
            if schema is not None and schema[0] != 'v':
                k = rng.randint(1, 3)
                vs = list(s.keys())
                es = []
                for i in range(k):
                    et = self.term(rng.randint(0, 2), vs_only=vs or None)
                    es.append(et)
                label = 'rule-%d' % self.nrule
                self.nrule += 1
                # variables used only in essentials need an instantiation too
                for et in es:
                    for v in tvars(et):
                        if v not in s:
                            s[v] = self.term(1, ground=True)
                self.add(label, 'rule', ([('%s.%d' % (label, i), et) for i, et in enumerate(es)], schema))
                subs = [self.prove(tsubst(et, s), depth - 1) for et in es]
                return self.apply(label, s, subs)
        # close by an axiom obtained by anti-unification
        schema, s = self.antiunify(goal, 3)
        if schema is None or schema[0] == 'v':
            schema, s = goal, {v: ('v', v) for v in tvars(goal)}
        for lab, t in db.axioms.items():
            if t == schema and not lab.startswith('proof-rule-'):
                return self.apply(lab, s, [])
        label = 'ax-%d' % self.naxiom
        self.naxiom += 1
        self.add(label, 'axiom', schema)
        return self.apply(label, s, [])


def compress(db, target_term, steps, rng, zmode):
    """RPN label list -> (labels, letters).  zmode: 'none' | 'all' | 'random'.  A Z mark is put
    after the last step of the first occurrence of a repeated sub-proof (sub-proofs are found
    by replaying the RPN and recording, for every step, the span that produced its result)."""
    mand = [l for l, _ in db.mandatory_floats([target_term])]
    other = []
    for l in steps:
        if l not in mand and l not in other:
            other.append(l)
    if rng.random() < 0.5:
        rng.shuffle(other)
    table = mand + other
    # spans: for each step index, start index of the sub-proof that ends there
    fl = {l for l, _ in db.floats}
    starts = []
    st = []          # stack of start indices
    for i, lab in enumerate(steps):
        if lab in fl:
            st.append(i)
        else:
            floats, es, _, _ = hyps_of(db, lab)
            n = len(floats) + len(es)
            s0 = st[len(st) - n] if n else i
            del st[len(st) - n:]
            st.append(s0)
        starts.append(st[-1])
    out = []
    saved = {}       # tuple(sub-proof labels) -> saved index
    i = 0
    nsaved = 0
    # walk from the left; at each position try to replace the longest already-saved sub-proof
    # that *starts* here.  Sub-proofs ending at j start at starts[j].
    ends_by_start = {}
    for j, s0 in enumerate(starts):
        ends_by_start.setdefault(s0, []).append(j)
    count = {}
    for j, s0 in enumerate(starts):
        key = tuple(steps[s0:j + 1])
        count[key] = count.get(key, 0) + 1
    letters = []
    while i < len(steps):
        done = False
        for j in sorted(ends_by_start.get(i, []), reverse=True):
            key = tuple(steps[i:j + 1])
            if key in saved and j > i - 1 and len(key) >= 1:
                letters.append(encode_number(len(table) + saved[key] + 1))
                i = j + 1
                done = True
                break
        if done:
            continue
        letters.append(encode_number(table.index(steps[i]) + 1))
        # sub-proofs ending exactly here
        s0 = starts[i]
        key = tuple(steps[s0:i + 1])
        if zmode != 'none' and len(key) >= 2 and count.get(key, 0) >= 2 and key not in saved:
            if zmode == 'all' or rng.random() < 0.5:
                saved[key] = nsaved
                nsaved += 1
                letters.append('Z')
        i += 1
    return other, ''.join(letters)
