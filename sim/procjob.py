"""A simulated "process": a fresh interpreter launched under a chosen PYTHONHASHSEED (and
setarch -R) that imports the toolkit and then serves jobs, each in a forked child so that
every job starts from the identical pristine image.  A job may carry a *history* of earlier
jobs to run first in the same (forked) process, a heap-noise prelude, and write faults for
history jobs (F8-F11).

Protocol: one JSON object per line on stdin -> one JSON object per line on stdout."""
from __future__ import annotations

import json
import os
import sys
import traceback

from . import covprobe


def _setup():
    from sim import bridge
    bridge.toolkit()
    import proof_generation.proof  # noqa
    import proof_generation.tautology  # noqa
    import proof_generation.proofs.small_theory  # noqa
    import proof_generation.proofs.substitution  # noqa
    import proof_generation.metamath.translate  # noqa
    import proof_generation.metamath.parser  # noqa


def build_target(spec):
    """-> object with .serialize; spec is a module recipe / shipped name / mm database."""
    from sim.engines import pipeline as P
    if spec['kind'] == 'module' and 'ties' in spec:
        return ties_module(spec['ties'])
    if spec['kind'] == 'module':
        sc = {'recipe': spec['recipe']} if 'recipe' in spec else {'shipped': spec['shipped']}
        mod, _ = P.materialise(sc)
        return mod
    if spec['kind'] == 'mm':
        return mm_skeleton(spec['text'], spec['target'])
    if spec['kind'] == 'k':
        from sim.engines import c20
        c20.warmup_imports()
        return c20.build_pe(spec['scenario'])
    raise ValueError(spec['kind'])


def ties_module(t):
    """A module with n pairs (Q, P = Q applied to something) of memoisation candidates containing symbols, P claimed a times
    and Q b more times for seeded small (a, b): some pairs tie exactly in the optimiser's score (uses x complexity), and
    whatever breaks the tie decides the Save/Load layout of the optimised output."""
    import random
    from proof_generation.proof import ProofExp
    from proof_generation.pattern import App, Implies, Symbol
    from proof_generation.proofs.propositional import Propositional
    rng = random.Random(t['salt'])
    mod = ProofExp(axioms=[Implies(Symbol('tie_ax'), Symbol('tie_ax'))])
    lib = mod.import_module(Propositional())
    seen = set()

    def claim(x, k):
        th = lib.imp_refl(x)
        for _ in range(k):
            th = lib.imp_provable(Symbol('w%d' % len(seen)), th)      # distinct conclusions
        if th.conc not in seen:
            seen.add(th.conc)
            mod.add_claim(th.conc)
            mod.add_proof_expression(th)
    for i in range(t['n']):
        q = App(Symbol('s%d_%d' % (t['salt'], i)), Symbol('r%d_%d' % (t['salt'], i)))
        tail = Symbol('t%d' % i) if rng.random() < 0.5 else App(Symbol('t%d' % i), Symbol('u%d' % i))
        p_ = App(q, tail)
        a, b = rng.randint(1, 4), rng.randint(0, 4)
        for k in range(a): claim(p_, k)
        for k in range(b): claim(q, k)
    return mod


def mm_skeleton(text, target):
    """What metamath/translate.py::main builds, without the argparse / pathlib shell."""
    from proof_generation.interpreter import ExecutionPhase
    from proof_generation.metamath.converter.converter import MetamathConverter
    from proof_generation.metamath.converter.representation import AxiomWithAntecedents
    from proof_generation.metamath.parser import parse_database
    from proof_generation.metamath.translate import convert_to_implication, exec_proof
    from proof_generation.proof import ProofExp
    db = parse_database(text)
    converter = MetamathConverter(db)
    extracted_axioms = []
    for axiom_name in converter.exported_axioms:
        axiom = converter.get_axiom_by_name(axiom_name)
        if isinstance(axiom, AxiomWithAntecedents):
            extracted_axioms.append(convert_to_implication(axiom.antecedents, axiom.pattern))
            continue
        extracted_axioms.append(axiom.pattern)
    extracted_claims = [converter.get_lemma_by_name(n).pattern for n in converter.lemmas]

    class TranslatedProofSkeleton(ProofExp):
        def __init__(self):
            super().__init__(axioms=extracted_axioms, claims=extracted_claims)

        def execute_proofs_phase(self, interpreter):
            assert interpreter.phase == ExecutionPhase.Proof
            exec_proof(converter, target, self, interpreter)
    sk = TranslatedProofSkeleton()
    sk._verif_converter = converter
    return sk


def serialise(obj, fs, base, fmt, optimize):
    from sim.engines import pipeline as P
    P.serialise(obj, fs, base, fmt, optimize)
    suf = 'ml' if fmt == 'binary' else 'pretty'
    return {s: fs.content('%s.%s-%s' % (base, suf, s)).hex() for s in ('gamma', 'claim', 'proof')}


def run_job(job):
    from sim.simfs import SimFS
    junk = [object() for _ in range(job.get('noise', 0))]      # heap-layout perturbation (F10)
    junk2 = [[i] for i in range(job.get('noise', 0) % 97)]
    if job['op'] == 'compose':
        from sim import compose as C
        from sim.simfs import SimFS
        from sim.engines import pipeline as P
        cap = job.get('cap')
        for k in range(8):
            recipe = C.compose(job['seed'] + 7919 * k, False)
            if cap is None:
                return {'recipe': recipe}
            try:
                b = C.build(recipe)
                fs = SimFS()
                P.serialise(b.main, fs, '/sim/probe', 'binary', False)
                if sum(len(x) for x in fs.triple('/sim/probe')) <= cap:
                    return {'recipe': recipe}
            except Exception:
                continue
        return {'error': 'NoSmallModule', 'message': 'no composition under the size cap'}
    if job['op'] == 'convert':
        from proof_generation.metamath.converter.converter import MetamathConverter
        from proof_generation.metamath.parser import parse_database
        conv = MetamathConverter(parse_database(job['text']))
        lemma = conv.get_lemma_by_name(job['target'])
        return {'labels': {str(k): v for k, v in lemma.proof.labels.items()}, 'applied': list(lemma.proof.applied_lemmas)}
    if job['op'] == 'real_main':
        # the real entry point on real files in a private directory
        import tempfile, shutil, io, contextlib
        from proof_generation.metamath import translate
        d = tempfile.mkdtemp(prefix='vt_')
        try:
            src = os.path.join(d, 'db.mm')
            with open(src, 'w') as f:
                f.write(job['text'])
            outd = os.path.join(d, 'out')
            argv = sys.argv
            sys.argv = ['translate', src, outd, job['target']]
            try:
                with contextlib.redirect_stdout(io.StringIO()):
                    translate.main()
            finally:
                sys.argv = argv
            import gc
            gc.collect()
            return {'files': {s: open(os.path.join(outd, 'db.ml-' + s), 'rb').read().hex() for s in ('gamma', 'claim', 'proof')}}
        finally:
            shutil.rmtree(d, ignore_errors=True)
    assert job['op'] == 'serialise'
    fs = SimFS()
    log = []
    target_obj = None
    if job.get('same_object_in_history'):
        target_obj = build_target(job['target'])
    for hi, h in enumerate(job.get('history', [])):
        try:
            obj = target_obj if h.get('same') else build_target(h['spec'])
            base = '/sim/h%d' % hi
            if h.get('fail_at') is not None:
                suf = 'ml' if h['fmt'] == 'binary' else 'pretty'
                fs.arm('%s.%s-%s' % (base, suf, h.get('fail_file', 'proof')), h['fail_at'])
            for _ in range(h.get('times', 1)):
                serialise(obj, fs, base, h['fmt'], h['optimize'])
            log.append('ok')
        except BaseException as e:
            log.append(type(e).__name__)
    if target_obj is None:
        target_obj = build_target(job['target'])
    out = {}
    for fmt in job['formats']:
        out[fmt] = serialise(target_obj, fs, '/sim/target_' + fmt, fmt, job['optimize'])
    return {'files': out, 'history_log': log, 'faults_fired': fs.faults_fired}


def main():
    covprobe.start()
    _setup()
    sys.stdout.write(json.dumps({'ready': True, 'hashseed': os.environ.get('PYTHONHASHSEED')}) + '\n')
    sys.stdout.flush()
    for line in sys.stdin:
        job = json.loads(line)
        r, w = os.pipe()
        pid = os.fork()
        if pid == 0:
            os.close(r)
            try:
                import faulthandler
                faulthandler.dump_traceback_later(job.get('timeout', 240), exit=True)
                res = run_job(job)
                if covprobe.ON and isinstance(res, dict):
                    res['_cov'] = covprobe.take()
            except BaseException as e:
                res = {'error': type(e).__name__, 'message': str(e)[:300], 'trace': traceback.format_exc()[-1200:]}
            data = json.dumps(res).encode()
            off = 0
            while off < len(data):
                off += os.write(w, data[off:off + 65536])
            os._exit(0)
        os.close(w)
        chunks = []
        while True:
            c = os.read(r, 1 << 20)
            if not c:
                break
            chunks.append(c)
        os.close(r)
        os.waitpid(pid, 0)
        data = b''.join(chunks)
        if not data:
            data = json.dumps({'error': 'ChildDied', 'message': 'job process died without a result'}).encode()
        sys.stdout.write(data.decode() + '\n')
        sys.stdout.flush()


if __name__ == '__main__':
    main()
