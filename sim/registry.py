ENGINES = {
    'C01': 'sim.engines.c01',
    'C02': 'sim.engines.c02',
    'C03': 'sim.engines.c03',
    'C04': 'sim.engines.c04',
    'C05': 'sim.engines.machine',
    'C07': 'sim.engines.c07',
    'C08': 'sim.engines.c08',
    'C14': 'sim.engines.c14',
    'C15': 'sim.engines.c15',
    'C16': 'sim.engines.c16',
    'C18': 'sim.engines.c18',
    'C19': 'sim.engines.c19',
    'C20': 'sim.engines.c20',
}

ENGINE_TABLE = [
    {'name': 'E-trace', 'path': 'sim/engines/c20.py', 'serves_properties': ['C20'],
     'kind_free_text': 'generated K signatures, rewrite rules and execution traces delivered event by event to the real K front end (builder API, and stub Kore terms through from_kore_definition / get_proof_hints) with event-stream faults (drop, duplicate, swap, corrupt substitution, wrong rule) against a sequential chain model; the resulting module is serialised and checked by the real checker and R1'},
    {'name': 'E-process', 'path': 'sim/procjob.py + sim/engines/c15.py c16.py c18.py', 'serves_properties': ['C15', 'C16', 'C18'],
     'kind_free_text': 'the front end under test runs as fresh OS processes (setarch -R, seeded PYTHONHASHSEED) that fork per job; jobs carry a seeded heap-noise prelude, a seeded history of earlier jobs in the same process and write faults of the in-memory file system; outputs are compared with a pristine reference process and with the Metamath reference model R4'},
    {'name': 'E-pipeline', 'path': 'sim/engines/pipeline.py', 'serves_properties': ['C02', 'C03', 'C14', 'C19'],
     'kind_free_text': 'proof modules composed with the real toolkit (seeded forward composition of primitive rules and every public library lemma over an import graph), serialised by the real ProofExp.serialize through an in-memory file system (SimFS) installed at the module-global open seam, then handed to the real Rust checker, the reference machine R1, the journal model R6 and the real deserialiser; stream faults injected into the live byte stream'},
    {'name': 'E-history', 'path': 'sim/engines/history.py', 'serves_properties': ['C04', 'C07', 'C08'],
     'kind_free_text': 'seeded histories of proof-DSL calls (incl. adversarial, inapplicable calls) issued to a real SerializingInterpreter (bare or under MemoizingInterpreter / InstantiationOptimizer) writing to in-memory sinks; lock-step refinement of the emitted bytes against the reference machine R1 and the real Rust checker'},
    {'name': 'E-machine', 'path': 'sim/engines/machine.py', 'serves_properties': ['C01', 'C05'],
     'kind_free_text': 'seeded instruction streams and stream faults (truncate/overwrite/flip/drop/dup/swap/misroute) driven through the real Rust checker (lib.rs by textual inclusion) stepped per instruction, against the reference machine R1'},
]

META = {
    'C08': {
        'engine': 'E-history', 'level': 'exploration', 'design_ref': 'DESIGN.md section 4 (C08)',
        'technique': 'deterministic simulation of one process in which the same proof-expression objects are run through a seeded order of interpreter stacks (shared mutable thunk state is the schedule), outcomes compared across stacks',
        'text': 'The claimed proof thunks of a composed module are run, as the same objects, through 5-8 interpreter stacks (conclusion-only, stateful, counting, serialising, pretty-printing, memoising with empty / finalize() / adversarial sets, instantiation-optimising, stacks of two transformers) in a seeded order inside one process; per thunk all stacks raise or none does and all conclusions are equal to each other and to the advertised one modulo notation; a thunk re-wrapped with a wrong advertised conclusion must fail everywhere. Weak-to-moderate fit: the order is a genuine schedule only because dynamic_inst mutates shared dictionaries while running.',
        'note': 'Expressions are built only with the public DSL and the libraries. A per-stack wall-clock guard abandons a stack whose pretty printing of deeply nested notation is exponential; such runs are excluded from the determinism digests.',
    },
    'C20': {
        'engine': 'E-trace', 'level': 'exploration', 'design_ref': 'DESIGN.md section 4 (C20)',
        'technique': 'deterministic simulation of rewrite-event streams with drop/duplicate/reorder/corrupt faults against a sequential reference model of the rewrite chain, followed by the generator -> checker pipeline',
        'text': 'Seeded signatures, rules with variables and traces from an independent rewriter are delivered event by event to the real ExecutionProofExp (through the builder API and, with stub Kore terms, through from_kore_definition + convert_substitutions); against the chain model R5 the front end must refuse exactly at the first event that does not start at the reached configuration and otherwise hold exactly the claims, advertised conclusions, current configuration and axioms R5 predicts; the finished module is serialised with both optimise settings, accepted by the real checker and R1 and passes the C03 journal check. Event-stream faults are injected in 45% of the runs.',
        'note': 'pyk is a STUB (sim/stubs/pyk): the Kore-conversion clause is checked against my reading of the field order the repository\'s match statements imply; everything else uses the repository\'s own builder API and pattern classes. Known findings D16 (repeated identical step refused) and D17 (kseq-valued substitution refused) are reported as KNOWN-FINDING.',
    },
    'C01': {
        'engine': 'E-machine', 'level': 'exploration', 'design_ref': 'DESIGN.md section 4 (C01)',
        'technique': 'deterministic simulation of the checker as a stepped machine over seeded instruction streams and stream faults, with a semantic soundness invariant (finite-model evaluation) checked after every instruction',
        'text': 'The real checker is stepped instruction by instruction over seeded streams from an empty or valid theory (all orders of axiom schemas, Instantiate, ModusPonens, Generalization, Substitution with capturing plugs over-represented, Save/Load/Pop, Publish) and over faulted variants of them; every new term it tags as proved is evaluated on admissible concrete instances in canonical and seeded finite models (carriers 1-3) under all (or sampled) valuations and must be the whole carrier. Streams, instances and models are sampled: a clean batch is evidence, not proof.',
        'note': 'Trusted: R2 (semantics.py: textbook free variables, polarity, application contexts, capture-avoiding substitution with renaming, least fixpoints by iteration) and the catalogue of valid schemas, which R2 re-checks at start-up. Carriers are limited to 3 as the property states.',
    },
    'C15': {
        'engine': 'E-process', 'level': 'exploration', 'design_ref': 'DESIGN.md section 4 (C15)',
        'technique': 'deterministic simulation of the converter as fresh processes under seeded hash seeds (the uncontrolled ordering the property names), decoded proofs compared with an independent Appendix-B codec',
        'text': 'Generated databases with 0-5 mandatory variables declared in an order different from name order, synthetic compressed proofs (seeded label lists incl. empty, step numbers on every code-length boundary up to 10^6 plus uniform samples, Z after seeded steps, seeded whitespace/line layout) are parsed and converted by the real code in fresh interpreters under 6-8 PYTHONHASHSEED values per run; Lemma.proof.labels and .applied_lemmas must equal the reference decoding under every seed. Strong for the hash-seed clause; the arithmetic clause is sampled on boundaries, not enumerated (stated in DESIGN.md).',
        'note': 'Trusted: R4 codec written from the Metamath book. Exhaustive enumeration up to 10^6 is outside this technique and is not claimed; half of the runs decode one seeded block of 1000 consecutive numbers and the evidence reports how many of the 1000 blocks partitioning 1..10^6 a batch covered (coverage.covered_sets).',
    },
    'C16': {
        'engine': 'E-process', 'level': 'exploration', 'design_ref': 'DESIGN.md section 4 (C16)',
        'technique': 'deterministic simulation of the translator process (seeded hash seed, seeded compression layout of one valid derivation) feeding the real checker and a reference machine; valid-by-construction databases re-verified by an independent Metamath verifier',
        'text': 'Proof-first generated databases in the supported fragment with a random valid derivation (re-verified by R4) are encoded in three compression layouts and translated by the real toolkit in fresh interpreters under seeded hash seeds (plus the real translate.main on real files for a sample): translation must succeed, the published claim must be the structural image of the target, the published axioms the images of the exported axioms and rules in order, and the real checker and R1 must accept, for every layout and seed.',
        'note': 'Trusted: R4 verifier and the 20-line term->pattern image. Known finding D15 (hard-coded variable roles of the built-in statements) is reported as KNOWN-FINDING; databases of that kind are 15% of the runs and are judged separately.',
    },
    'C18': {
        'engine': 'E-process', 'level': 'exploration', 'design_ref': 'DESIGN.md section 4 (C18)',
        'technique': 'deterministic simulation of processes: seeded hash seed x heap layout x in-process history x failed-write history, byte comparison with a pristine reference process',
        'text': 'Each target (composed or shipped proof module, generated or shipped Metamath database) is serialised to binary and pretty once in a pristine reference interpreter and three times in interpreters with seeded PYTHONHASHSEED, seeded heap-noise prelude and a seeded history of 0-4 earlier serialisations in the same process (other targets, the target object itself, formats and optimise mixed, some aborted by an injected write error); all six files must be byte-identical to the reference.',
        'note': 'Trusted: setarch -R for reproducible addresses, SimFS. translate.main is represented by an equivalent in-memory skeleton (the real main runs in C16).',
    },
    'C19': {
        'engine': 'E-pipeline', 'level': 'exploration', 'design_ref': 'DESIGN.md section 4 (C19)',
        'technique': 'deterministic simulation of serialisation histories on one module object (binary/pretty interleaved, optimise mixed) with step-by-step correspondence of the pretty files to the disassembled binary files; plus an artefact monitor over notation renderings',
        'text': 'Sentence 2 of the property is decided by simulation: one module object is serialised 2-4 times in one process in a seeded order of (format, optimise) jobs; for each (binary, pretty) pair with equal optimise setting every line of the pretty file must be a step, a continuation line or a stack dump, and the steps must match the binary instructions one to one in order with equal scalar operands (symbols under one injective map, Load slots equal, Instantiate keys reversed). Sentence 1 (a pure function of a notation application) is only monitored: seeded shipped notations at seeded argument tuples with pairwise distinct renderings must render differently when they differ at a definition-relevant position.',
        'note': 'Weak fit, stated in DESIGN.md: the notation half is an artefact monitor, not a simulation result. Trusted: the small pretty-file reader in c19.py, R1.parse_one.',
    },
    'C02': {
        'engine': 'E-pipeline', 'level': 'exploration', 'design_ref': 'DESIGN.md section 4 (C02)',
        'technique': 'deterministic simulation of the generator -> files -> checker pipeline (fault-free class): seeded module compositions through the real serialiser and an in-memory file system into the real checker and a reference machine',
        'text': 'Every module the toolkit accepts at construction and serialisation (shipped modules and seeded compositions of prop1-3, Quantifier, modus_ponens, exists_generalization, dynamic_inst and all public lemmas of Propositional/Tautology incl. prove_tautology, over import graphs, optimise off and on, in seeded order on one module object) must be accepted by the real checker and by R1. A Python exception during construction or serialisation counts as the toolkit refusing, not as a violation. Modules are sampled: evidence, not proof.',
        'note': 'Trusted: R1, the harness tail, SimFS. Well-formed workload: pattern arguments are well-formed by the documented judgement, explicit instantiations legal by R3. Known findings D5/D12/D14 are reported as KNOWN-FINDING. A quarter of the runs extend the module after a serialisation (axiom, import, claim) and serialise it again; an exception while serialising is a legitimate refusal only for the lazy assertions of exists_generalization / modus_ponens.',
    },
    'C03': {
        'engine': 'E-pipeline', 'level': 'exploration', 'design_ref': 'DESIGN.md section 4 (C03)',
        'technique': 'deterministic simulation of the pipeline with an id-space exhaustion fault class: publish journal of a reference machine on the emitted files versus an independent walk over the declared module graph',
        'text': 'R1 executes the emitted files; its publish journal (axioms de-duplicated by first occurrence, claims, discharges) must equal the declaration walked independently over the import graph under one injective symbol map per triple, for both optimise settings; modules that cannot be encoded in one-byte ids (more than 256 symbols, ids above 255, over-long constraint lists, more than 256 memory slots) must be refused by the serialiser, never wrapped around.',
        'note': 'Trusted: R1, R6 (the walk order: imported modules first, depth first), the bridge. Triples that R1 rejects are left to C02 (their gamma and claim journals are still judged). A quarter of the runs extend the module after a serialisation and serialise it again: the publication must follow the declaration as it then stands. Symbol numbering is observed at the serialiser\'s symbol() seam.',
    },
    'C14': {
        'engine': 'E-pipeline', 'level': 'fault_enumeration', 'design_ref': 'DESIGN.md section 4 (C14)',
        'technique': 'deterministic simulation of the writer -> stored stream -> deserialiser pipeline with faults injected into the live stream: every cut inside every instruction and unknown/zero opcodes, against a recording writer and reader',
        'text': 'A recording SerializingInterpreter writes the three phases of a module; the bytes of each phase are fed through the real deserialize_instructions into a fresh recording reader: same call sequence (methods, scalar operands, term operands modulo symbol renaming) and same stack/memory/claims at the end of each phase. Fault enumeration per stream: before every instruction of the live stream, every truncation inside it and a zero / unknown opcode in its place must make the deserialiser raise. The cut positions are exhaustive per stream, the modules are sampled.',
        'note': 'Trusted: the recording subclasses, R1.split for instruction boundaries. Claims are compared from the end of the claim phase on (a fresh reader learns them there). Large modules use a StatefulInterpreter reader (the pretty-printing one dumps the stack per call), small ones the PrettyPrintingInterpreter.',
    },
    'C04': {
        'engine': 'E-history', 'level': 'exploration', 'design_ref': 'DESIGN.md section 4 (C04)',
        'technique': 'deterministic simulation: seeded call histories against the real stateful/serialising interpreter, lock-step refinement of the emitted byte stream against an executable reference machine after every call',
        'text': 'After every accepted call of a seeded history the bytes appended by that call are executed by R1 (and, on a sample, by the real Rust checker in lock-step); R1 must not abort and its stack (minus entries the tracker has already published), memory (entry by entry, with Pattern/Proved tag), claim queue and every emitted Load index must equal the tracker state modulo notation expansion and one injective symbol numbering. Histories are sampled, so this is evidence, not proof.',
        'note': 'Trusted: R1/R3 and the bridge that expands toolkit patterns with the textbook simultaneous instantiation. Refinement relation excludes stack entries left behind by publish_* (pinned behaviour, known finding D13). Known findings D5/D12 (toolkit performs no constraint/capture checks at instantiation) are reported as KNOWN-FINDING.',
    },
    'C07': {
        'engine': 'E-history', 'level': 'exploration', 'design_ref': 'DESIGN.md section 4 (C07)',
        'technique': 'deterministic simulation: per-call oracle inside seeded call histories with injected inapplicable (adversarial) rule calls, judged against the documented rule computed by an independent model',
        'text': 'Inside the same histories, with 25-45% adversarial rule calls, each modus_ponens / exists_generalization / instantiate / instantiate_pattern call either raises or the documented rule applies to the premises found on the tracked stack and the returned conclusion equals the rule\'s conclusion exactly (modulo notation expansion). Weak-to-moderate fit: the verdict is a comparison of one call with a model; the simulation contributes premises in the shapes real histories produce, replay and minimisation.',
        'note': 'Trusted: R3 judgements (documented e_fresh etc.), textbook instantiation. Known findings D5/D12 reported as KNOWN-FINDING.',
    },
    'C05': {
        'engine': 'E-machine', 'level': 'fault_enumeration', 'design_ref': 'DESIGN.md section 4 (C05)',
        'technique': 'deterministic simulation: seeded instruction streams + enumerated/sampled storage faults, lock-step refinement of the real Rust checker against an executable reference machine',
        'text': 'Seeded base programs (guided generator stepping the reference machine, unguided short programs over the full opcode alphabet, shipped proofs) are executed instruction by instruction in the real checker and in R1 and must agree on verdict and on stack/memory/claims after every instruction; per base program every truncation offset of every stream is enumerated, every single-byte overwrite by every defined opcode on short streams, and sampled flips/drops/dups/swaps/misrouted files. The fault dimension is exhaustive per stream, the streams are sampled: evidence, not proof.',
        'note': 'Trusted: R1 (written from docs/proof-language.md; stances 1-8 of DESIGN.md 3.1), the harness tail appended to lib.rs, rustc. The cargo workspace cannot be resolved offline, so the crate is built with rustc directly from the same sources.',
    },
}
