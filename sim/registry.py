ENGINES = {
    'C05': 'sim.engines.machine',
}

ENGINE_TABLE = [
    {'name': 'E-machine', 'path': 'sim/engines/machine.py', 'serves_properties': ['C05'],
     'kind_free_text': 'seeded instruction streams and stream faults (truncate/overwrite/flip/drop/dup/swap/misroute) driven through the real Rust checker (lib.rs by textual inclusion) stepped per instruction, against the reference machine R1'},
]

META = {
    'C05': {
        'engine': 'E-machine', 'level': 'fault_enumeration', 'design_ref': 'DESIGN.md section 4 (C05)',
        'technique': 'deterministic simulation: seeded instruction streams + enumerated/sampled storage faults, lock-step refinement of the real Rust checker against an executable reference machine',
        'text': 'Seeded base programs (guided generator stepping the reference machine, unguided short programs over the full opcode alphabet, shipped proofs) are executed instruction by instruction in the real checker and in R1 and must agree on verdict and on stack/memory/claims after every instruction; per base program every truncation offset of every stream is enumerated, every single-byte overwrite by every defined opcode on short streams, and sampled flips/drops/dups/swaps/misrouted files. The fault dimension is exhaustive per stream, the streams are sampled: evidence, not proof.',
        'note': 'Trusted: R1 (written from docs/proof-language.md; stances 1-8 of DESIGN.md 3.1), the harness tail appended to lib.rs, rustc. The cargo workspace cannot be resolved offline, so the crate is built with rustc directly from the same sources.',
    },
}
