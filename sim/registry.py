ENGINES = {
    'C04': 'sim.engines.c04',
    'C05': 'sim.engines.machine',
    'C07': 'sim.engines.c07',
}

ENGINE_TABLE = [
    {'name': 'E-history', 'path': 'sim/engines/history.py', 'serves_properties': ['C04', 'C07'],
     'kind_free_text': 'seeded histories of proof-DSL calls (incl. adversarial, inapplicable calls) issued to a real SerializingInterpreter (bare or under MemoizingInterpreter / InstantiationOptimizer) writing to in-memory sinks; lock-step refinement of the emitted bytes against the reference machine R1 and the real Rust checker'},
    {'name': 'E-machine', 'path': 'sim/engines/machine.py', 'serves_properties': ['C05'],
     'kind_free_text': 'seeded instruction streams and stream faults (truncate/overwrite/flip/drop/dup/swap/misroute) driven through the real Rust checker (lib.rs by textual inclusion) stepped per instruction, against the reference machine R1'},
]

META = {
    'C04': {
        'engine': 'E-history', 'level': 'exploration', 'design_ref': 'DESIGN.md section 4 (C04)',
        'technique': 'deterministic simulation: seeded call histories against the real stateful/serialising interpreter, lock-step refinement of the emitted byte stream against an executable reference machine after every call',
        'text': 'After every accepted call of a seeded history the bytes appended by that call are executed by R1 (and, on a sample, by the real Rust checker in lock-step); R1 must not abort and its stack (minus entries the tracker has already published), memory (entry by entry, with Pattern/Proved tag), claim queue and every emitted Load index must equal the tracker state modulo notation expansion and one injective symbol numbering. Histories are sampled, so this is evidence, not proof.',
        'note': 'Trusted: R1/R3 and the bridge that expands toolkit patterns with the textbook simultaneous instantiation. Refinement relation excludes stack entries left behind by publish_* (pinned behaviour, known finding D13). Known findings D5/D12 (toolkit performs no constraint/capture checks at instantiation) are reported as KNOWN-FINDING.',
    },
    'C07': {
        'engine': 'E-history', 'level': 'exploration', 'design_ref': 'DESIGN.md section 4 (C07)',
        'technique': 'deterministic simulation: per-call oracle inside seeded call histories with injected inapplicable (adversarial) rule calls, judged against the documented rule computed by an independent model',
        'text': 'Inside the same histories, with 25-45% adversarial rule calls, each modus_ponens / exists_generalization / instantiate / instantiate_pattern call either raises or the documented rule applies to the premises found on the tracked stack and the returned conclusion equals the rule\'s conclusion exactly (modulo notation expansion). Weak-to-moderate fit: the verdict is a comparison of one call with a model; the simulation contributes premises in the shapes real histories produce, replay and minimisation.',
        'note': 'Trusted: R3 judgements (documented e_fresh etc.), textbook instantiation. Known findings D5/D12 reported as KNOWN-FINDING.',
    },
    'C05': {
        'engine': 'E-machine', 'level': 'fault_enumeration', 'design_ref': 'DESIGN.md section 4 (C05)',
        'technique': 'deterministic simulation: seeded instruction streams + enumerated/sampled storage faults, lock-step refinement of the real Rust checker against an executable reference machine',
        'text': 'Seeded base programs (guided generator stepping the reference machine, unguided short programs over the full opcode alphabet, shipped proofs) are executed instruction by instruction in the real checker and in R1 and must agree on verdict and on stack/memory/claims after every instruction; per base program every truncation offset of every stream is enumerated, every single-byte overwrite by every defined opcode on short streams, and sampled flips/drops/dups/swaps/misrouted files. The fault dimension is exhaustive per stream, the streams are sampled: evidence, not proof.',
        'note': 'Trusted: R1 (written from docs/proof-language.md; stances 1-8 of DESIGN.md 3.1), the harness tail appended to lib.rs, rustc. The cargo workspace cannot be resolved offline, so the crate is built with rustc directly from the same sources.',
    },
}
