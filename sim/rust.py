"""Build and drive the real Rust checker.

* `build_harness()`  -- copies $PI2_REPO/rust/src/lib.rs, appends rust_harness/harness_tail.rs
  (textual inclusion: private items stay reachable), compiles with the installed stable rustc.
  The binary is cached under /verif/.build keyed by the SHA-256 of the *sources*, so any edit
  to lib.rs forces a rebuild; nothing is kept under /tmp.
* `build_checker()`  -- the real `checker` binary (lib.rs as rlib + main.rs).
* `Harness`          -- long-lived process speaking the framed protocol.
"""
from __future__ import annotations

import fcntl
import hashlib
import os
import shutil
import struct
import subprocess
import tempfile

from .paths import REPO, VERIF

BUILD = os.path.join(VERIF, '.build')
TAIL = os.path.join(VERIF, 'sim', 'rust_harness', 'harness_tail.rs')
RUSTC_ENV = dict(os.environ, RUSTUP_TOOLCHAIN='stable', CARGO_NET_OFFLINE='true')
RUSTC_FLAGS = ['--edition', '2021', '-O', '--cap-lints', 'warn']


class BuildError(Exception):
    pass


def _digest(*paths):
    h = hashlib.sha256()
    for p in paths:
        with open(p, 'rb') as f:
            h.update(f.read())
        h.update(b'\0')
    return h.hexdigest()[:20]


def _locked_build(key, builder):
    os.makedirs(BUILD, exist_ok=True)
    target = os.path.join(BUILD, key)
    if os.path.exists(target):
        return target
    with open(os.path.join(BUILD, '.lock'), 'w') as lk:
        fcntl.flock(lk, fcntl.LOCK_EX)
        if os.path.exists(target):
            return target
        tmp = tempfile.mkdtemp(prefix='b_', dir=BUILD)
        try:
            out = builder(tmp)
            os.replace(out, target)
        finally:
            shutil.rmtree(tmp, ignore_errors=True)
    return target


def build_harness():
    lib = os.path.join(REPO, 'rust', 'src', 'lib.rs')
    key = 'harness_' + _digest(lib, TAIL)

    def builder(tmp):
        src = os.path.join(tmp, 'h.rs')
        with open(src, 'wb') as o:
            for p in (lib, TAIL):
                with open(p, 'rb') as f:
                    o.write(f.read())
        out = os.path.join(tmp, 'harness')
        r = subprocess.run(['rustc', *RUSTC_FLAGS, '--crate-type', 'bin', '-o', out, src],
                           env=RUSTC_ENV, cwd=tmp, capture_output=True, text=True)
        if r.returncode != 0:
            raise BuildError('rustc failed on lib.rs + harness tail:\n' + r.stderr[-4000:])
        return out

    return _locked_build(key, builder)


def build_checker():
    lib = os.path.join(REPO, 'rust', 'src', 'lib.rs')
    main = os.path.join(REPO, 'rust', 'src', 'main.rs')
    key = 'checker_' + _digest(lib, main)

    def builder(tmp):
        r = subprocess.run(['rustc', *RUSTC_FLAGS, '--crate-type', 'rlib', '--crate-name', 'checker',
                            '-o', os.path.join(tmp, 'libchecker.rlib'), lib],
                           env=RUSTC_ENV, cwd=tmp, capture_output=True, text=True)
        if r.returncode != 0:
            raise BuildError('rustc failed on lib.rs:\n' + r.stderr[-4000:])
        out = os.path.join(tmp, 'checker')
        r = subprocess.run(['rustc', *RUSTC_FLAGS, '--crate-type', 'bin', '-o', out,
                            '--extern', 'checker=' + os.path.join(tmp, 'libchecker.rlib'), main],
                           env=RUSTC_ENV, cwd=tmp, capture_output=True, text=True)
        if r.returncode != 0:
            raise BuildError('rustc failed on main.rs:\n' + r.stderr[-4000:])
        return out

    return _locked_build(key, builder)


def gc_builds(keep=6):
    """Keep the build cache small (disk is limited)."""
    try:
        ents = [os.path.join(BUILD, e) for e in os.listdir(BUILD) if e.startswith(('harness_', 'checker_'))]
    except FileNotFoundError:
        return
    ents.sort(key=lambda p: os.path.getmtime(p), reverse=True)
    for p in ents[keep:]:
        try:
            os.remove(p)
        except OSError:
            pass


class Result:
    __slots__ = ('accepted', 'panic', 'panic_at', 'steps', 'phases', 'raw')

    def __init__(self, raw):
        self.raw = raw
        self.accepted = raw.rstrip().endswith('END accept')
        self.panic = None
        self.panic_at = None
        self.steps = {}    # (phase, chunk) -> dump text
        self.phases = {}   # phase -> dump text
        cur = None
        buf = []
        for line in raw.split('\n'):
            if line.startswith(('OK ', 'PHASE ', 'PANIC ', 'END ')):
                if cur is not None:
                    txt = '\n'.join(buf) + '\n'
                    if cur[0] == 'OK': self.steps[(cur[1], cur[2])] = txt
                    else: self.phases[cur[1]] = txt
                cur, buf = None, []
                parts = line.split(' ', 3)
                if parts[0] == 'OK': cur = ('OK', int(parts[1]), int(parts[2]))
                elif parts[0] == 'PHASE': cur = ('PHASE', int(parts[1]), 0)
                elif parts[0] == 'PANIC':
                    self.panic = parts[3] if len(parts) > 3 else ''
                    self.panic_at = (parts[1], parts[2])
            elif cur is not None:
                buf.append(line)


class Harness:
    def __init__(self, path=None):
        self.path = path or build_harness()
        self.p = subprocess.Popen([self.path], stdin=subprocess.PIPE, stdout=subprocess.PIPE, stderr=subprocess.DEVNULL)
        self.requests = 0

    def _rpc(self, payload):
        self.p.stdin.write(struct.pack('<I', len(payload)) + payload)
        self.p.stdin.flush()
        hdr = self.p.stdout.read(4)
        if len(hdr) < 4:
            raise RuntimeError('rust harness died (exit %r)' % self.p.poll())
        (n,) = struct.unpack('<I', hdr)
        data = self.p.stdout.read(n)
        self.requests += 1
        return data.decode('utf-8', 'replace')

    @staticmethod
    def _enc(mode, phases):
        out = [bytes([mode])]
        for chunks in phases:
            out.append(struct.pack('<I', len(chunks)))
            for c in chunks:
                out.append(struct.pack('<I', len(c)))
                out.append(bytes(c))
        return b''.join(out)

    def run_chunks(self, phases, every=True):
        """phases: three lists of byte chunks, executed with persistent state."""
        return Result(self._rpc(self._enc(1 if every else 0, phases)))

    def verify(self, gamma, claim, proof):
        """The real `verify` on whole buffers; verdict only."""
        return Result(self._rpc(self._enc(2, [[gamma], [claim], [proof]])))

    def close(self):
        try:
            self.p.stdin.close()
            self.p.wait(timeout=5)
        except Exception:
            self.p.kill()
