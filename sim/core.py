"""Simulator core: one integer decides everything.

run_seed(i) = H(VERIF_SEED, property, i) -> random.Random -> scenario (explicit JSON data)
scenario   -> executed against the real code in a forked child of a pristine worker
            -> outcome {violations, digest, probes, faults, transitions, ...}

Workers are fresh interpreters (`setarch -R python`, fixed PYTHONHASHSEED per shard); a
run never sees state left by another run (fork-per-run), results are merged by run index,
so worker count and completion order cannot change any digest.
"""
from __future__ import annotations

from . import covprobe
import hashlib
import json
import os
import random
import select
import signal
import struct
import subprocess
import sys
import time
import traceback

from .paths import VERIF, REPO

PY = sys.executable
RUN_TIMEOUT_S = 900 if os.environ.get('VERIF_TIER') == 'thorough' else 300      # bounds hangs; the thorough tiers run much larger modules, often on a loaded machine


def H(*parts):
    h = hashlib.sha256()
    for p in parts:
        h.update(str(p).encode())
        h.update(b'\x1f')
    return int.from_bytes(h.digest()[:8], 'big')


def run_seed(seed, prop, i):
    return H('run', seed, prop, i)


def digest_of(obj):
    return hashlib.sha256(json.dumps(obj, sort_keys=True, separators=(',', ':'), default=str).encode()).hexdigest()[:16]


class Outcome:
    """What one simulated run reports back."""

    def __init__(self):
        self.violations = []     # {'oracle':..., 'signature':..., 'detail':...}
        self.events = []         # ordered event log (step, op, outcome class, state digest) -> digest
        self.probes = {}
        self.faults = {}         # fault kind -> times it actually fired
        self.transitions = set() # abstract transitions reached (strings)
        self.ops = 0             # operations stepped
        self.klass = 'fault-free'
        self.nontrivial = False
        self.note = None
        self.refused = False     # the system under test refused the scenario (not a violation)
        self.explicit = None     # explicit (replayable, generator-independent) form of the scenario, if the engine derived one

    def probe(self, name, n=1):
        self.probes[name] = self.probes.get(name, 0) + n

    def fault(self, name, n=1):
        self.faults[name] = self.faults.get(name, 0) + n

    def event(self, *e):
        self.events.append(e)

    def violate(self, oracle, signature, detail):
        self.violations.append({'oracle': oracle, 'signature': signature, 'detail': str(detail)[:2000]})

    def to_json(self):
        return {
            'violations': self.violations,
            'digest': digest_of(self.events),
            'n_events': len(self.events),
            'probes': self.probes,
            'faults': self.faults,
            'transitions': sorted(self.transitions),
            'ops': self.ops,
            'klass': self.klass,
            'nontrivial': self.nontrivial,
            'refused': self.refused,
            'note': self.note,
            'explicit': self.explicit,
        }


# ------------------------------------------------------------------ fork-per-run
def _child_exec(engine, scenario, ctx, wfd):
    try:
        import faulthandler
        faulthandler.dump_traceback_later(RUN_TIMEOUT_S - 5, exit=True)
        covprobe.reset_for_child()
        out = engine.execute(scenario, ctx)
        data = json.dumps({'ok': True, 'outcome': out.to_json(), 'cov': covprobe.take()}).encode()
    except BaseException:
        data = json.dumps({'ok': False, 'error': traceback.format_exc()[-3000:]}).encode()
    try:
        os.write(wfd, struct.pack('<I', len(data)))
        off = 0
        while off < len(data):
            off += os.write(wfd, data[off:off + 65536])
    finally:
        os._exit(0)


def run_isolated(engine, scenario, ctx, timeout=RUN_TIMEOUT_S):
    """Execute one scenario in a forked child; returns outcome json or {'harness_error':...}."""
    rfd, wfd = os.pipe()
    sys.stdout.flush(); sys.stderr.flush()
    pid = os.fork()
    if pid == 0:
        os.close(rfd)
        _child_exec(engine, scenario, ctx, wfd)
    os.close(wfd)
    buf = b''
    deadline = time.monotonic() + timeout
    need = None
    try:
        while True:
            left = deadline - time.monotonic()
            if left <= 0:
                os.kill(pid, signal.SIGKILL)
                os.waitpid(pid, 0)
                ctx.harness_desynced()
                return {'harness_error': 'run exceeded %ds wall clock and was killed' % timeout}
            r, _, _ = select.select([rfd], [], [], min(left, 1.0))
            if not r:
                continue
            chunk = os.read(rfd, 1 << 20)
            if not chunk:
                break
            buf += chunk
            if need is None and len(buf) >= 4:
                need = struct.unpack('<I', buf[:4])[0]
            if need is not None and len(buf) >= 4 + need:
                break
    finally:
        os.close(rfd)
    _, status = os.waitpid(pid, 0)
    if need is None or len(buf) < 4 + need:
        ctx.harness_desynced()
        return {'harness_error': 'child died without a result (status %d)' % status}
    res = json.loads(buf[4:4 + need])
    if not res['ok']:
        return {'harness_error': res['error']}
    covprobe.merge(res.get('cov'))
    return res['outcome']


class Ctx:
    """Per-worker context: long-lived helpers shared (one at a time) by the forked runs."""

    def __init__(self, engine):
        self.engine = engine
        self._harness = None
        self.scratch = None

    @property
    def harness(self):
        if self._harness is None:
            from . import rust
            self._harness = rust.Harness()
        return self._harness

    def harness_desynced(self):
        if self._harness is not None:
            try:
                self._harness.p.kill()
            except Exception:
                pass
            self._harness = None

    # ---- simulated processes (fresh interpreters under a chosen hash seed), reused across runs
    def proc(self, hashseed):
        if not hasattr(self, '_procs'):
            self._procs = {}
        p = self._procs.get(hashseed)
        if p is not None and p.poll() is None:
            return p
        if len(self._procs) >= 12:
            old = next(iter(self._procs))
            self._kill_proc(old)
        cmd = [PY, '-X', 'utf8', '-m', 'sim.procjob']
        if os.path.exists('/usr/bin/setarch'):
            cmd = ['setarch', os.uname().machine, '-R'] + cmd
        p = subprocess.Popen(cmd, env=worker_env(hashseed), cwd=VERIF, stdin=subprocess.PIPE, stdout=subprocess.PIPE,
                             stderr=subprocess.DEVNULL, text=True)
        line = p.stdout.readline()
        if not line:
            raise RuntimeError('simulated process (hashseed %s) failed to start' % hashseed)
        self._procs[hashseed] = p
        return p

    def ask(self, hashseed, job):
        p = self.proc(hashseed)
        if 'timeout' not in job:
            job = dict(job, timeout=RUN_TIMEOUT_S - 60)
        p.stdin.write(json.dumps(job) + '\n')
        p.stdin.flush()
        line = p.stdout.readline()
        if not line:
            self._kill_proc(hashseed)
            raise RuntimeError('simulated process (hashseed %s) died' % hashseed)
        r = json.loads(line)
        if r.get('error') == 'ChildDied':
            # the job process was killed by its wall-clock guard or crashed: a harness problem, never a verdict
            raise RuntimeError('simulated job died without a result (wall-clock guard or crash): %s' % json.dumps(job)[:300])
        covprobe.merge(r.pop('_cov', None))
        return r

    def _kill_proc(self, hashseed):
        p = self._procs.pop(hashseed, None)
        if p is not None:
            try:
                p.stdin.close()
                p.kill()
                p.wait(timeout=5)
            except Exception:
                pass

    def close(self):
        for h in list(getattr(self, '_procs', {})):
            self._kill_proc(h)
        if self._harness is not None:
            self._harness.close()


def load_engine(prop):
    import importlib
    from . import registry
    return importlib.import_module(registry.ENGINES[prop])


def execute_one(engine, scenario, ctx):
    if getattr(engine, 'ISOLATE', True):
        return run_isolated(engine, scenario, ctx)
    try:
        return engine.execute(scenario, ctx).to_json()
    except BaseException:
        return {'harness_error': traceback.format_exc()[-3000:]}


# ------------------------------------------------------------------------ worker
def worker_main(argv):
    prop, shard, of, seed, first, count, deadline_s, out_path = argv[:8]
    shard, of, seed, first, count = int(shard), int(of), int(seed), int(first), int(count)
    deadline = time.monotonic() + float(deadline_s)
    covprobe.start()
    engine = load_engine(prop)
    tier = os.environ.get('VERIF_TIER', 'quick')
    ctx = Ctx(engine)
    if hasattr(engine, 'warmup'):
        engine.warmup(ctx)
    agg = {
        'runs': 0, 'ops': 0, 'digests': {}, 'probes': {}, 'faults': {}, 'transitions': set(),
        'klass': {}, 'nontrivial_keys': set(), 'violations': [], 'harness_errors': [], 'refused': 0,
        'samples': [], 'stopped_early': False, 'slowest': [0.0, -1],
    }
    for i in range(first + shard, first + count, of):
        if time.monotonic() > deadline:
            agg['stopped_early'] = True
            break
        rs = run_seed(seed, prop, i)
        rng = random.Random(rs)
        try:
            scenario = engine.generate(rng, tier)
        except BaseException:
            agg['harness_errors'].append({'run': i, 'error': 'generate: ' + traceback.format_exc()[-2000:]})
            continue
        scenario['_run'] = i
        scenario['_seed'] = seed
        _t0 = time.monotonic()
        res = execute_one(engine, scenario, ctx)
        _dt = time.monotonic() - _t0
        if _dt > agg['slowest'][0]:
            agg['slowest'] = [round(_dt, 2), i]
        agg['runs'] += 1
        if 'harness_error' in res:
            agg['harness_errors'].append({'run': i, 'error': res['harness_error'], 'scenario': scenario})
            continue
        agg['ops'] += res['ops']
        if res.get('note') != 'timing-dependent':
            agg['digests'][i] = res['digest']
        for k, v in res['probes'].items():
            agg['probes'][k] = agg['probes'].get(k, 0) + v
        for k, v in res['faults'].items():
            agg['faults'][k] = agg['faults'].get(k, 0) + v
        agg['transitions'].update(res['transitions'])
        agg['klass'][res['klass']] = agg['klass'].get(res['klass'], 0) + 1
        if res['refused']:
            agg['refused'] += 1
        if res['nontrivial']:
            agg['nontrivial_keys'].add(res['digest'])
        if res.get('explicit'):
            scenario = dict(res['explicit'], _run=i, _seed=seed)
        if len(agg['samples']) < 2 and res['nontrivial']:
            agg['samples'].append({'run': i, 'scenario': scenario, 'digest': res['digest'], 'klass': res['klass']})
        for v in res['violations']:
            agg['violations'].append({'run': i, 'scenario': scenario, **v})
    ctx.close()
    covprobe.dump(prop)
    agg['transitions'] = sorted(agg['transitions'])
    agg['nontrivial_keys'] = sorted(agg['nontrivial_keys'])
    with open(out_path, 'w') as f:
        json.dump(agg, f)


def worker_env(hashseed):
    env = dict(os.environ)
    env['PYTHONHASHSEED'] = str(hashseed)
    env['PYTHONPATH'] = VERIF
    env['PYTHONDONTWRITEBYTECODE'] = '1'
    return env


def worker_cmd(args):
    cmd = [PY, '-X', 'utf8', '-m', 'sim', 'worker', *map(str, args)]
    if os.path.exists('/usr/bin/setarch'):
        cmd = ['setarch', os.uname().machine, '-R'] + cmd
    return cmd


def run_fresh(prop, scenario, hashseed=0, timeout=600):
    """Replay one explicit scenario in a fresh interpreter. Returns outcome json."""
    import tempfile
    with tempfile.TemporaryDirectory(prefix='vr_') as d:
        sp, op = os.path.join(d, 's.json'), os.path.join(d, 'o.json')
        with open(sp, 'w') as f:
            json.dump(scenario, f)
        cmd = [PY, '-X', 'utf8', '-m', 'sim', 'one', prop, sp, op]
        if os.path.exists('/usr/bin/setarch'):
            cmd = ['setarch', os.uname().machine, '-R'] + cmd
        try:
            r = subprocess.run(cmd, env=worker_env(hashseed), cwd=VERIF, capture_output=True, text=True, timeout=timeout)
        except subprocess.TimeoutExpired:
            return {'harness_error': 'replay timed out'}
        if not os.path.exists(op):
            return {'harness_error': 'replay process failed: ' + (r.stderr or '')[-2000:]}
        with open(op) as f:
            return json.load(f)


def one_main(argv):
    prop, sp, op = argv[:3]
    engine = load_engine(prop)
    with open(sp) as f:
        scenario = json.load(f)
    ctx = Ctx(engine)
    if hasattr(engine, 'warmup'):
        engine.warmup(ctx)
    res = execute_one(engine, scenario, ctx)
    ctx.close()
    with open(op, 'w') as f:
        json.dump(res, f)


