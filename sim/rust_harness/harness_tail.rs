
// ======================================================================
// /verif harness tail -- appended textually to a copy of rust/src/lib.rs
// (never committed to /repo).  Gives the simulator a framed request /
// response protocol over stdin/stdout around the *real* private items
// `execute_instructions`, `verify`, `Pattern`, `Term`, `Entry`.
// ======================================================================
extern crate std;
use std::io::{Read, Write};
use std::string::String;
use std::fmt::Write as FmtWrite;

fn vh_ids(out: &mut String, l: &IdList) {
    out.push('[');
    for (i, x) in l.iter().enumerate() {
        if i > 0 { out.push(','); }
        let _ = write!(out, "{}", x);
    }
    out.push(']');
}

fn vh_pat(out: &mut String, p: &Pattern) {
    match p {
        Pattern::EVar(i) => { let _ = write!(out, "e{}", i); }
        Pattern::SVar(i) => { let _ = write!(out, "s{}", i); }
        Pattern::Symbol(i) => { let _ = write!(out, "y{}", i); }
        Pattern::Implies { left, right } => { out.push_str("(i "); vh_pat(out, left); out.push(' '); vh_pat(out, right); out.push(')'); }
        Pattern::App { left, right } => { out.push_str("(a "); vh_pat(out, left); out.push(' '); vh_pat(out, right); out.push(')'); }
        Pattern::Exists { var, subpattern } => { let _ = write!(out, "(E{} ", var); vh_pat(out, subpattern); out.push(')'); }
        Pattern::Mu { var, subpattern } => { let _ = write!(out, "(M{} ", var); vh_pat(out, subpattern); out.push(')'); }
        Pattern::MetaVar { id, e_fresh, s_fresh, positive, negative, app_ctx_holes } => {
            let _ = write!(out, "(m{} ", id);
            vh_ids(out, e_fresh); vh_ids(out, s_fresh); vh_ids(out, positive); vh_ids(out, negative); vh_ids(out, app_ctx_holes);
            out.push(')');
        }
        Pattern::ESubst { pattern, evar_id, plug } => { out.push_str("(es "); vh_pat(out, pattern); let _ = write!(out, " {} ", evar_id); vh_pat(out, plug); out.push(')'); }
        Pattern::SSubst { pattern, svar_id, plug } => { out.push_str("(ss "); vh_pat(out, pattern); let _ = write!(out, " {} ", svar_id); vh_pat(out, plug); out.push(')'); }
    }
}

fn vh_dump(out: &mut String, stack: &Stack, memory: &Memory, claims: &Claims) {
    let _ = write!(out, "S {}\n", stack.len());
    for t in stack.iter() {
        match t {
            Term::Pattern(p) => { out.push_str("P:"); vh_pat(out, p); }
            Term::Proved(p) => { out.push_str("T:"); vh_pat(out, p); }
        }
        out.push('\n');
    }
    let _ = write!(out, "M {}\n", memory.len());
    for t in memory.iter() {
        match t {
            Entry::Pattern(p) => { out.push_str("P:"); vh_pat(out, p); }
            Entry::Proved(p) => { out.push_str("T:"); vh_pat(out, p); }
        }
        out.push('\n');
    }
    let _ = write!(out, "C {}\n", claims.len());
    for p in claims.iter() { out.push_str("P:"); vh_pat(out, p); out.push('\n'); }
}

std::thread_local! {
    static VH_PANIC: std::cell::RefCell<String> = std::cell::RefCell::new(String::new());
}

fn vh_u32(b: &[u8], pos: &mut usize) -> usize {
    let v = u32::from_le_bytes([b[*pos], b[*pos + 1], b[*pos + 2], b[*pos + 3]]) as usize;
    *pos += 4;
    v
}

/// mode bit0: dump after every chunk (else only after each phase)
/// mode bit1: run the real `verify` on the concatenated buffers instead (verdict only)
fn vh_handle(req: &[u8]) -> String {
    let mut out = String::new();
    let mode = req[0];
    let mut pos = 1usize;
    let mut phases: Vec<Vec<Vec<u8>>> = Vec::new();
    for _ in 0..3 {
        let n = vh_u32(req, &mut pos);
        let mut chunks = Vec::new();
        for _ in 0..n {
            let l = vh_u32(req, &mut pos);
            chunks.push(req[pos..pos + l].to_vec());
            pos += l;
        }
        phases.push(chunks);
    }
    if mode & 2 != 0 {
        let bufs: Vec<Vec<u8>> = phases.iter().map(|c| c.concat()).collect();
        let r = std::panic::catch_unwind(|| { verify(&bufs[0], &bufs[1], &bufs[2]); });
        match r {
            Ok(()) => out.push_str("END accept\n"),
            Err(_) => { let m = VH_PANIC.with(|p| p.borrow().clone()); let _ = write!(out, "PANIC verify 0 {}\nEND reject\n", m); }
        }
        return out;
    }
    let mut stack: Stack = Vec::new();
    let mut memory: Memory = Vec::new();
    let mut claims: Claims = Vec::new();
    for (pi, chunks) in phases.iter().enumerate() {
        stack.clear();
        for (ci, chunk) in chunks.iter().enumerate() {
            let phase = match pi { 0 => ExecutionPhase::Gamma, 1 => ExecutionPhase::Claim, _ => ExecutionPhase::Proof };
            let r = std::panic::catch_unwind(std::panic::AssertUnwindSafe(|| {
                execute_instructions(chunk, &mut stack, &mut memory, &mut claims, phase);
            }));
            if r.is_err() {
                let m = VH_PANIC.with(|p| p.borrow().clone());
                let _ = write!(out, "PANIC {} {} {}\nEND reject\n", pi, ci, m);
                return out;
            }
            if mode & 1 != 0 {
                let _ = write!(out, "OK {} {}\n", pi, ci);
                vh_dump(&mut out, &stack, &memory, &claims);
            }
        }
        let _ = write!(out, "PHASE {}\n", pi);
        vh_dump(&mut out, &stack, &memory, &claims);
    }
    if claims.is_empty() { out.push_str("END accept\n"); } else { out.push_str("PANIC 3 0 claims left unproved\nEND reject\n"); }
    out
}

#[allow(dead_code)]
fn main() {
    std::panic::set_hook(std::boxed::Box::new(|info| {
        let mut m = String::new();
        if let Some(s) = info.payload().downcast_ref::<&str>() { m.push_str(s); }
        else if let Some(s) = info.payload().downcast_ref::<String>() { m.push_str(s); }
        else { m.push_str("<panic>"); }
        if let Some(l) = info.location() { let _ = write!(m, " @{}", l.line()); }
        let m: String = m.chars().map(|c| if c == '\n' { ' ' } else { c }).take(160).collect();
        VH_PANIC.with(|p| *p.borrow_mut() = m);
    }));
    let stdin = std::io::stdin();
    let stdout = std::io::stdout();
    let mut inp = stdin.lock();
    let mut outp = stdout.lock();
    loop {
        let mut lenb = [0u8; 4];
        if inp.read_exact(&mut lenb).is_err() { break; }
        let len = u32::from_le_bytes(lenb) as usize;
        let mut req = vec![0u8; len];
        if inp.read_exact(&mut req).is_err() { break; }
        let resp = vh_handle(&req);
        let rb = resp.as_bytes();
        let _ = outp.write_all(&(rb.len() as u32).to_le_bytes());
        let _ = outp.write_all(rb);
        let _ = outp.flush();
    }
}
