"""Fault catalogue F1-F6 on stored byte streams.  A fault is explicit JSON data
[kind, file, args...]; `apply` returns the faulted triple and whether the fault fired
(changed the bytes)."""
from __future__ import annotations


def apply(triple, fault):
    t = [bytes(x) for x in triple]
    kind = fault[0]
    if kind == 'misroute':
        how = fault[1]
        if how == 'swap_gc': t[0], t[1] = t[1], t[0]
        elif how == 'swap_cp': t[1], t[2] = t[2], t[1]
        elif how == 'swap_gp': t[0], t[2] = t[2], t[0]
        elif how == 'empty_g': t[0] = b''
        elif how == 'empty_c': t[1] = b''
        elif how == 'empty_p': t[2] = b''
        elif how == 'other_claim': t[1] = bytes.fromhex(fault[2])
        elif how == 'other_proof': t[2] = bytes.fromhex(fault[2])
        elif how == 'stale_tail':   # a shorter file written over a longer one that was not truncated
            f = fault[2]; t[f] = t[f] + bytes.fromhex(fault[3])
        return tuple(t), tuple(t) != tuple(triple)
    f = fault[1]
    b = bytearray(t[f])
    n = len(b)
    if kind == 'trunc':
        k = fault[2]
        if k >= n: return tuple(t), False
        b = b[:k]
    elif kind == 'over':
        k, v = fault[2], fault[3]
        if k >= n or b[k] == v: return tuple(t), False
        b[k] = v
    elif kind == 'flip':
        k, bit = fault[2], fault[3]
        if k >= n: return tuple(t), False
        b[k] ^= (1 << bit)
    elif kind == 'drop':
        i, j = fault[2], fault[3]
        if i >= n or j <= i: return tuple(t), False
        del b[i:j]
    elif kind == 'dup':
        i, j = fault[2], fault[3]
        if i >= n or j <= i: return tuple(t), False
        b[j:j] = b[i:j]
    elif kind == 'swap':
        i, j, l = fault[2], fault[3], fault[4]
        if not (i < j < l <= n): return tuple(t), False
        b = b[:i] + b[j:l] + b[i:j] + b[l:]
    else:
        raise ValueError(kind)
    t[f] = bytes(b)
    return tuple(t), True


def sample(rng, triple, bounds, other=None):
    """One seeded fault. `bounds[f]` = instruction boundaries of file f (for aligned chunks)."""
    files = [f for f in range(3) if len(triple[f]) > 0] or [2]
    f = rng.choice(files)
    n = len(triple[f])
    kind = rng.choices(['trunc', 'over', 'flip', 'drop', 'dup', 'swap', 'misroute'], [3, 3, 2, 2, 2, 2, 1])[0]
    bd = bounds[f] if rng.random() < 0.6 and len(bounds[f]) > 2 else list(range(n + 1))
    if kind == 'trunc':
        return ['trunc', f, rng.randrange(max(1, n))]
    if kind == 'over':
        from .refmachine import OP
        v = rng.choice(list(OP.values())) if rng.random() < 0.7 else rng.randrange(256)
        return ['over', f, rng.randrange(max(1, n)), v]
    if kind == 'flip':
        return ['flip', f, rng.randrange(max(1, n)), rng.randrange(8)]
    if kind in ('drop', 'dup'):
        i = rng.choice(bd[:-1]) if len(bd) > 1 else 0
        js = [x for x in bd if x > i][:4] or [min(n, i + 1)]
        return [kind, f, i, rng.choice(js)]
    if kind == 'swap':
        if len(bd) >= 3:
            a = rng.randrange(len(bd) - 2)
            return ['swap', f, bd[a], bd[a + 1], bd[min(len(bd) - 1, a + 2)]]
        return ['swap', f, 0, max(1, n // 2), n]
    hows = ['swap_gc', 'swap_cp', 'swap_gp', 'empty_g', 'empty_c', 'empty_p']
    if other is not None:
        hows += ['other_claim', 'other_proof', 'stale_tail', 'stale_tail']
    how = rng.choice(hows)
    if how == 'other_claim': return ['misroute', how, other[1].hex()]
    if how == 'other_proof': return ['misroute', how, other[2].hex()]
    if how == 'stale_tail':
        src = other[f]
        return ['misroute', how, f, src[len(triple[f]):].hex() if len(src) > len(triple[f]) else src[-3:].hex()]
    return ['misroute', how]
