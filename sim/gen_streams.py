"""Seeded generator of instruction streams for the three phases (E-machine workload).

The generator steps its own copy of R1 while it emits, so that it can mostly choose
applicable operations (and deliberately, sometimes, inapplicable ones)."""
from __future__ import annotations

from . import terms as T
from . import refmachine as R
from .refmachine import OP
from .gen_patterns import Knobs, gen_pattern, emit


def valid_axiom_catalogue(rng, k):
    """Schemas valid in every model (each entry is re-checked by R2 in the C01 engine)."""
    A, B, C = T.mv(0), T.mv(1), T.mv(2)
    x = rng.choice(k.evars)
    X = rng.choice(k.svars)
    Ax = T.mv(0, ef=(x,))
    cat = [
        T.imp(A, A),
        T.imp(A, T.imp(B, A)),
        T.imp(T.imp(A, B), T.imp(T.imp(B, C), T.imp(A, C))),
        T.imp(T.BOT, A),
        T.imp(T.neg(T.neg(A)), A),
        T.imp(A, T.neg(T.neg(A))),
        T.imp(T.imp(T.neg(A), T.neg(B)), T.imp(B, A)),
        T.imp(T.ex(x, Ax), Ax),                                   # x fresh in A
        T.imp(T.app(T.BOT, A), T.BOT),                             # propagation of bottom
        T.imp(T.app(A, T.BOT), T.BOT),
        T.imp(T.app(T.imp(T.neg(A), B), C), T.imp(T.neg(T.app(A, C)), T.app(B, C))),   # propagation of or (left)
        T.imp(T.app(T.ex(x, A), T.mv(1, ef=(x,))), T.ex(x, T.app(A, T.mv(1, ef=(x,))))),  # propagation of exists
        T.imp(T.ssub(T.mv(0, pos=(X,)), X, T.mu(X, T.mv(0, pos=(X,)))), T.mu(X, T.mv(0, pos=(X,)))),  # pre-fixpoint
        T.imp(T.esub(T.mv(0, holes=(x,)), x, T.BOT), T.BOT),       # C[bot] -> bot, C an application context
        T.ex(x, T.evar(x)),
        T.imp(T.mv(0, sf=(X,), pos=(X,)), T.mu(X, T.mv(0, sf=(X,), pos=(X,)))),       # X fresh in A: mu X . A is A
        T.imp(T.mu(X, T.mv(0, sf=(X,), pos=(X,))), T.mv(0, sf=(X,), pos=(X,))),
        T.imp(T.ex(x, T.mv(0, ef=(x,), sf=(X,))), T.mv(0, ef=(x,), sf=(X,))),
    ]
    return cat


class StreamGen:
    def __init__(self, rng, theory='random', max_ops=40, k=None):
        self.rng = rng
        self.k = k or Knobs(rng)
        self.theory = theory
        self.max_ops = max_ops
        self.m = R.Machine()
        self.bufs = [bytearray(), bytearray(), bytearray()]
        self.to_claim = []
        self.dead = False          # the generator's own machine aborted: stop guiding
        self.pool = []             # interesting patterns seen (sub-terms of theorems)
        self.w = {
            'axiom': rng.choice([1, 2, 4]), 'pattern': rng.choice([1, 2]), 'inst': rng.choice([2, 4, 6]),
            'mp': rng.choice([2, 4, 6]), 'gen': rng.choice([0, 1, 3]), 'subst': rng.choice([0, 1, 3]),
            'save': rng.choice([1, 2]), 'load': rng.choice([1, 2]), 'pop': rng.choice([0, 1]),
            'publish': rng.choice([0, 1, 2]), 'junk': rng.choice([0, 0, 1]), 'capture': rng.choice([0, 1, 2]), 'muprobe': rng.choice([0, 1, 2]), 'freshprobe': rng.choice([0, 1, 2]), 'quantprobe': rng.choice([0, 1, 2]), 'consprobe': rng.choice([0, 1, 2, 3]),
        }
        self.p_bad = rng.choice([0.0, 0.05, 0.15])    # adversarial (inapplicable) choices

    # -- low level
    def put(self, data):
        ph = self.m.phase
        self.bufs[ph] += data
        if self.dead:
            return
        try:
            self.m.run_chunk(bytes(data))
        except T.Abort:
            self.dead = True

    def pat(self, concrete=False, depth=None):
        return gen_pattern(self.rng, self.k, depth, concrete, self.pool if self.rng.random() < 0.5 else None)

    def put_pattern(self, p):
        self.put(emit(p, self.rng))

    def proved_slots(self):
        return [i for i, (kd, _) in enumerate(self.m.memory) if kd == 'T' and i < 256]      # Load takes a one-byte index

    def remember(self, t):
        if t[0] in ('i', 'a'):
            for s in (t[1], t[2]):
                if s not in self.pool and T.size(s) <= 12:
                    self.pool.append(s)
        if len(self.pool) > 12:
            self.pool.pop(0)

    # -- phases
    def gamma(self):
        rng = self.rng
        n = 0 if self.theory == 'empty' else rng.randint(0, 4)
        cat = valid_axiom_catalogue(rng, self.k)
        for _ in range(n):
            if self.theory == 'valid':
                ax = rng.choice(cat)
            else:
                ax = rng.choice(cat) if rng.random() < 0.5 else self.pat()
            self.put_pattern(ax)
            if rng.random() < 0.1:
                self.put(bytes([OP['Save']]))
            self.put(bytes([OP['Publish']]))
        if rng.random() < 0.2:       # a saved notation-like pattern shared with later phases
            self.put_pattern(self.pat())
            self.put(bytes([OP['Save']]))
            if rng.random() < 0.5:
                self.put(bytes([OP['Pop']]))

    def claim_prelude(self):
        if self.rng.random() < 0.15:
            self.put_pattern(self.pat())
            self.put(bytes([OP['Save'], OP['Pop']]))

    def source(self):
        """Emit something that leaves a Proved on top; returns its term or None."""
        rng = self.rng
        slots = self.proved_slots()
        if slots and rng.random() < 0.6:
            i = rng.choice(slots)
            if i < 256:
                self.put(bytes([OP['Load'], i]))
                return self.m.memory[i][1]
        name = rng.choice(['Prop1', 'Prop2', 'Prop3', 'Prop1', 'Prop2', 'Quantifier', 'Existence'])
        self.put(bytes([OP[name]]))
        return {'Prop1': R.PROP1, 'Prop2': R.PROP2, 'Prop3': R.PROP3, 'Quantifier': R.QUANT, 'Existence': R.EXISTENCE}[name]

    def op_inst(self):
        rng = self.rng
        # decide the source first (without emitting) so that plugs can be put below it
        slots = self.proved_slots()
        src = None
        if slots and rng.random() < 0.6:
            i = rng.choice(slots)
            if i < 256:
                src = ('load', i, self.m.memory[i][1])
        if src is None:
            name = rng.choice(['Prop1', 'Prop2', 'Prop3', 'Quantifier'])
            src = ('ax', name, {'Prop1': R.PROP1, 'Prop2': R.PROP2, 'Prop3': R.PROP3, 'Quantifier': R.QUANT}[name])
        term = src[2]
        mvs = T.metavars(term)
        ids = sorted(set(m[1] for m in mvs))
        chosen = [i for i in ids if rng.random() < 0.8]
        if rng.random() < 0.15:
            chosen.append(rng.choice(self.k.mvars + [7]))          # an id that may not occur (or a duplicate)
        rng.shuffle(chosen)
        if not chosen and rng.random() < 0.7:
            chosen = ids[:1] or [0]
        plugs = []
        for i in chosen:
            cons = [m for m in mvs if m[1] == i]
            p = None
            holes = sorted(set(h for c in cons for h in c[6]))
            if holes and rng.random() < 0.6:
                # an application context in the hole, built directly (random patterns almost never are one)
                h = holes[0]
                p = T.evar(h) if rng.random() < 0.7 else T.mv(rng.choice(self.k.mvars), holes=(h,))
                for _ in range(rng.randint(0, 2)):
                    side = self.pat(depth=1)
                    if not T.e_fresh(side, h):
                        side = T.sym(0)
                    p = T.app(p, side) if rng.random() < 0.5 else T.app(side, p)
                plugs.append(p)
                continue
            for _ in range(6):
                p = self.pat(depth=rng.randint(0, 2))
                if rng.random() < self.p_bad:
                    break
                try:
                    for c in cons:
                        T.instantiate(c, [i], [p])
                    break
                except T.Abort:
                    continue
            plugs.append(p)
        # first listed id takes the top-most plug
        for p in reversed(plugs):
            self.put_pattern(p)
        if src[0] == 'load':
            self.put(bytes([OP['Load'], src[1]]))
        else:
            self.put(bytes([OP[src[1]]]))
        self.put(bytes([OP['Instantiate'], len(chosen), *chosen]))

    def op_mp(self):
        rng = self.rng
        mem = self.m.memory
        slots = [i for i in self.proved_slots() if i < 256]
        pairs = [(i, j) for i in slots for j in slots if mem[i][1][0] == 'i' and mem[i][1][1] == mem[j][1]]
        if pairs and rng.random() < 0.6:
            i, j = rng.choice(pairs)
            self.put(bytes([OP['Load'], i, OP['Load'], j, OP['ModusPonens']]))
            return
        if slots and rng.random() < 0.85:
            # weaken a theorem A to B -> A through prop1
            j = rng.choice(slots)
            a = mem[j][1]
            b = self.pat(depth=rng.randint(0, 2))
            self.put_pattern(b)
            self.put_pattern(a)
            self.put(bytes([OP['Prop1'], OP['Instantiate'], 2, 0, 1]))
            self.put(bytes([OP['Load'], j, OP['ModusPonens']]))
            return
        # adversarial: two arbitrary proved terms
        self.source(); self.source()
        self.put(bytes([OP['ModusPonens']]))

    def op_gen(self):
        rng = self.rng
        t = self.source()
        if t is None:
            return
        if t[0] != 'i' and rng.random() > self.p_bad:
            # make it an implication first:  t ~> (b -> t)
            if self.m.stack:
                self.put(bytes([OP['Pop']]))
            slots = [i for i in self.proved_slots() if i < 256 and self.m.memory[i][1][0] == 'i']
            if not slots:
                self.put(bytes([OP['Prop1']]))
                t = R.PROP1
            else:
                i = rng.choice(slots)
                self.put(bytes([OP['Load'], i]))
                t = self.m.memory[i][1]
        cand = list(self.k.evars) + [5]
        if t[0] == 'i' and rng.random() > self.p_bad + 0.1:
            ok = [x for x in cand if T.e_fresh(t[2], x)]
            if ok:
                cand = ok
        self.put(bytes([OP['Generalization'], rng.choice(cand)]))

    def op_subst(self):
        rng = self.rng
        X = rng.choice(self.k.svars)
        r = rng.random()
        if r < 0.35:
            plug = T.evar(rng.choice(self.k.evars))           # the capturing kind when under a binder
        elif r < 0.5:
            plug = T.svar(rng.choice(self.k.svars))
        else:
            plug = self.pat(depth=rng.randint(0, 2))
        self.put_pattern(plug)
        self.source()
        self.put(bytes([OP['Substitution'], X]))

    def op_capture_probe(self):
        """Instantiate a pending substitution with a binder body, crossing each of the four capture
        arms (esubst under exists / under mu, ssubst under mu / under exists) with plugs that are
        captured, not captured, or a metavariable with / without the freshness declaration."""
        rng, k = self.rng, self.k
        x, X = rng.choice(k.evars), rng.choice(k.svars)
        e_kind = rng.random() < 0.5
        binder_e = rng.random() < 0.5
        bv = rng.choice(k.evars) if binder_e else rng.choice(k.svars)
        inner = rng.choice([T.evar(x), T.svar(X), T.app(T.evar(x), T.svar(X)), T.app(T.svar(X), T.evar(x)), T.imp(T.sym(0), T.evar(x)) if e_kind else T.app(T.sym(0), T.svar(X))])
        body = T.ex(bv, inner) if binder_e else T.mu(bv, inner)
        if not T.wf_deep(body):
            body = T.ex(bv, inner) if binder_e else T.mu(bv, T.app(T.svar(bv), T.evar(x)))
        plug = rng.choice([T.evar(bv) if binder_e else T.svar(bv), T.evar(x), T.svar(X), T.sym(0), T.mv(3), T.mv(3, ef=(bv,)) if binder_e else T.mv(3, sf=(bv,)),
                           T.app(T.sym(0), T.evar(bv) if binder_e else T.svar(bv))])
        pend = T.esub(T.mv(0), x, plug) if e_kind else T.ssub(T.mv(0), X, plug)
        self.put_pattern(body)
        self.put_pattern(pend)
        self.put(bytes([OP['Instantiate'], 1, 0]))
        if rng.random() < 0.5:
            self.put(bytes([OP['Pop']]))

    def op_fresh_probe(self):
        """Generalization over a variable of a theorem whose consequent contains pending
        substitutions: crosses the e_fresh judgement of ESubst/SSubst/MetaVar/Exists arms, with
        the variable chosen regardless of whether the judgement holds (adversarial half)."""
        rng, k = self.rng, self.k
        x = rng.choice(k.evars)
        y = rng.choice([e for e in k.evars if e != x] or [(x + 1) % 250])
        X = rng.choice(k.svars)
        m, mf = T.mv(3), T.mv(3, ef=(x,))
        plugs = [T.imp(T.evar(x), T.evar(y)), T.app(T.evar(x), T.sym(0)), T.evar(y), T.sym(0), T.mv(4), T.mv(4, ef=(x,)), T.ex(x, T.evar(x)), T.ex(y, T.evar(x))]
        fam = [T.esub(m, x, rng.choice(plugs)), T.esub(m, y, rng.choice(plugs)), T.ssub(m, X, rng.choice(plugs)), T.ssub(mf, X, rng.choice(plugs)),
               T.esub(T.esub(m, y, T.evar(x)), x, rng.choice(plugs)), T.esub(T.ssub(m, X, T.evar(x)), x, rng.choice(plugs)), T.ex(x, m), T.ex(y, T.esub(m, x, rng.choice(plugs))),
               T.mu(X, T.app(T.svar(X), T.evar(x))), mf, T.imp(mf, T.esub(mf, y, T.evar(x)))]
        P = rng.choice(fam)
        if not T.wf_deep(P):
            return
        Q = rng.choice([T.sym(0), T.evar(y), T.mv(4, ef=(x,)), T.BOT])
        self.put_pattern(Q)
        self.put_pattern(P)
        self.put(bytes([OP['Prop1'], OP['Instantiate'], 2, 0, 1]))      # |- P -> (Q -> P)
        v = rng.choice([x, x, y, rng.choice(k.evars)])
        self.put(bytes([OP['Generalization'], v]))
        if not self.dead and rng.random() < 0.4 and len(self.m.memory) < 240 and self.m.stack and self.m.stack[-1][0] == 'T':
            # two-step resolution of the pending substitution: the metavariable under it is first renamed to one that carries a
            # constraint (in the right or in the wrong sort, for x or for y), then replaced by a term that mentions x
            self.put(bytes([OP['Save'], OP['Pop']]))
            i = len(self.m.memory) - 1
            self.put_pattern(rng.choice([T.mv(4, sf=(x,)), T.mv(4, ef=(x,)), T.mv(4, ef=(y,)), T.mv(4), T.mv(4, pos=(x,)), T.mv(4, ef=(y,), sf=(x,))]))
            self.put(bytes([OP['Load'], i, OP['Instantiate'], 1, 3]))
            if not self.dead and self.m.stack and self.m.stack[-1][0] == 'T':
                self.put(bytes([OP['Save'], OP['Pop']]))
                j = len(self.m.memory) - 1
                self.put_pattern(rng.choice([T.evar(x), T.evar(y), T.app(T.evar(x), T.sym(0)), T.ex(x, T.evar(x)), T.svar(x)]))
                self.put(bytes([OP['Load'], j, OP['Instantiate'], 1, 4]))
            return
        if not self.dead and rng.random() < 0.6 and len(self.m.memory) < 250 and self.m.stack and self.m.stack[-1][0] == 'T':
            self.put(bytes([OP['Save']]))

    def op_mu_probe(self):
        """mu X . body with bodies on both sides of the documented positivity judgement: crosses the
        positive/negative arms of MetaVar, Implies, Mu (shadowing), ESubst and SSubst (all four
        combinations of the inner metavariable's polarity in the substituted variable and the plug's
        polarity in the bound one)."""
        rng, k = self.rng, self.k
        X = rng.choice(k.svars)
        Y = rng.choice([s for s in k.svars if s != X] or [(X + 1) % 250])
        x = rng.choice(k.evars)

        def lists():
            return tuple(v for v in (X, Y) if rng.random() < 0.5)
        phi = T.mv(0, sf=lists() if rng.random() < 0.3 else (), pos=lists(), neg=lists())
        plugs = [T.svar(X), T.neg(T.svar(X)), T.svar(Y), T.sym(0), T.evar(x), T.mv(1, pos=(X,)), T.mv(1, neg=(X,)), T.mv(1, sf=(X,)), T.imp(T.svar(X), T.svar(Y))]
        plug = rng.choice(plugs)
        core = rng.choice([phi, T.esub(phi, x, plug), T.ssub(phi, Y, plug), T.ssub(phi, X, plug), T.ssub(T.ssub(phi, Y, plug), X, rng.choice(plugs)), T.mu(Y, T.app(T.svar(Y), phi))])
        if core[0] in ('es', 'ss') and not T.wf_construct(core) and rng.random() < 0.8:
            core = phi
        body = rng.choice([core, T.neg(core), T.neg(T.neg(core)), T.imp(core, T.svar(X)), T.imp(T.svar(X), core), T.app(T.svar(X), core), T.imp(T.neg(core), T.svar(Y))])
        self.put_pattern(body)
        self.put(bytes([OP['Mu'], X]))
        # the follow-up is emitted even if the reference machine has just refused the mu: a checker that
        # wrongly accepts it must be led on to build a theorem from it
        r = rng.random()
        if r < 0.3:
            self.put(bytes([OP['Pop']]))
        elif r < 0.85:
            # make the freshly accepted mu pattern part of a theorem: prop1[phi0 := mu X. body]
            self.put(bytes([OP['Prop1'], OP['Instantiate'], 1, 0]))

    def op_constraint_probe(self):
        """Instantiate a constrained metavariable of a saved theorem / axiom with a plug chosen on the
        boundary of the constraint (variables with the same number in the other sort, binders that
        shadow or do not shadow, both polarities), whether or not the reference judgement admits it."""
        rng = self.rng
        cands = []
        for i in self.proved_slots():
            if i > 255:
                continue
            for m in T.metavars(self.m.memory[i][1]):
                if any(m[2:7]):
                    cands.append((i, m))
        if not cands:
            return
        i, m = rng.choice(cands)
        fam = [T.sym(0), T.BOT]
        for x in m[2]:      # e_fresh
            fam += [T.evar(x), T.ex(x, T.evar(x)), T.mu(x % 250, T.evar(x)), T.ex((x + 1) % 250, T.evar(x)), T.app(T.sym(0), T.evar(x)), T.svar(x)]
        for X in m[3]:      # s_fresh
            fam += [T.svar(X), T.mu(X, T.svar(X)), T.ex(X, T.svar(X)), T.mu((X + 1) % 250, T.svar(X)), T.app(T.svar(X), T.sym(0)), T.evar(X)]
        for X in m[4]:      # positive
            fam += [T.svar(X), T.neg(T.svar(X)), T.neg(T.neg(T.svar(X))), T.mu(X, T.neg(T.svar(X))) if False else T.app(T.svar(X), T.neg(T.svar(X))), T.imp(T.svar(X), T.svar(X))]
        for X in m[5]:      # negative
            fam += [T.svar(X), T.neg(T.svar(X)), T.imp(T.svar(X), T.sym(0)), T.app(T.neg(T.svar(X)), T.sym(0))]
        for x in m[6]:      # application context
            fam += [T.evar(x), T.app(T.evar(x), T.sym(0)), T.app(T.evar(x), T.evar(x)), T.imp(T.evar(x), T.BOT), T.app(T.sym(0), T.app(T.evar(x), T.sym(1))),
                    # the hole on both sides of an application, once in context position and once not
                    T.app(T.evar(x), T.imp(T.evar(x), T.BOT)), T.app(T.imp(T.evar(x), T.BOT), T.evar(x)), T.app(T.app(T.evar(x), T.sym(0)), T.ex((x + 1) % 250, T.evar(x))),
                    T.app(T.ex(x, T.evar(x)), T.evar(x)), T.app(T.mv(5, holes=(x,)), T.evar(x)), T.app(T.mv(5, holes=(x,)), T.sym(0)), T.app(T.mv(5), T.evar(x))]
        p = rng.choice(fam)
        if not T.wf_deep(p):
            return
        self.put_pattern(p)
        self.put(bytes([OP['Load'], i, OP['Instantiate'], 1, m[1]]))
        if not self.dead and rng.random() < 0.5 and len(self.m.memory) < 250:
            self.put(bytes([OP['Save']]))

    def op_quantifier_probe(self):
        """Quantifier instantiated with plugs that bind / shadow / mention x0 and x1 (the variables the
        axiom's own pending substitution talks about)."""
        rng = self.rng
        x0, x1 = T.evar(0), T.evar(1)
        fam = [T.ex(0, x0), T.neg(T.ex(0, x0)), T.ex(0, T.app(x0, x1)), T.ex(1, x0), T.ex(1, x1), T.ex(1, T.app(x0, x1)), x0, x1, T.app(x0, x1), T.imp(x0, T.ex(0, x0)),
               T.mu(0, T.app(T.svar(0), x0)), T.ex(0, T.ex(1, T.app(x0, x1))), T.ex(2, x0), T.mv(1, ef=(0,)), T.mv(1, ef=(1,)), T.mv(1), T.esub(T.mv(1), 0, T.sym(0)), T.esub(T.mv(1), 1, x0),
               T.app(T.ex(0, x0), x0)]
        p = rng.choice(fam)
        if not T.wf_deep(p):
            return
        self.put_pattern(p)
        self.put(bytes([OP['Quantifier'], OP['Instantiate'], 1, 0]))
        if not self.dead and rng.random() < 0.6 and len(self.m.memory) < 250:
            self.put(bytes([OP['Save']]))

    def proof_ops(self):
        rng = self.rng
        names = list(self.w)
        weights = [self.w[n] for n in names]
        nops = rng.randint(3, self.max_ops)
        for _ in range(nops):
            if self.dead and rng.random() < 0.5:
                break
            op = rng.choices(names, weights)[0]
            st = self.m.stack
            if op == 'axiom':
                self.source()
            elif op == 'pattern':
                self.put_pattern(self.pat())
            elif op == 'inst':
                self.op_inst()
            elif op == 'mp':
                self.op_mp()
            elif op == 'gen':
                self.op_gen()
            elif op == 'subst':
                self.op_subst()
            elif op == 'save':
                if st or rng.random() < self.p_bad:
                    self.put(bytes([OP['Save']]))
            elif op == 'load':
                n = len(self.m.memory)
                if n and rng.random() > self.p_bad:
                    self.put(bytes([OP['Load'], rng.randrange(min(n, 256))]))
                elif rng.random() < self.p_bad + 0.02:
                    self.put(bytes([OP['Load'], min(255, n + rng.randint(0, 2))]))
            elif op == 'pop':
                if st or rng.random() < self.p_bad:
                    self.put(bytes([OP['Pop']]))
            elif op == 'publish':
                if st and st[-1][0] == 'T' and not self.dead:
                    t = st[-1][1]
                    self.to_claim.append(t)
                    self.m.claims.append(t)       # the claim stream is emitted afterwards to match
                    self.put(bytes([OP['Publish']]))
                elif rng.random() < self.p_bad:
                    self.put(bytes([OP['Publish']]))
            elif op == 'capture':
                self.op_capture_probe()
            elif op == 'muprobe':
                self.op_mu_probe()
            elif op == 'freshprobe':
                self.op_fresh_probe()
            elif op == 'quantprobe':
                self.op_quantifier_probe()
            elif op == 'consprobe':
                self.op_constraint_probe()
            elif op == 'junk':
                self.put(bytes([rng.choice([0, 1, 16, 17, 18, 20, 23, 25, 31, 99, 136, 138, 255])]))
            if not self.dead and self.m.stack and self.m.stack[-1][0] == 'T':
                self.remember(self.m.stack[-1][1])
                if rng.random() < 0.5 and len(self.m.memory) < 250:
                    self.put(bytes([OP['Save']]))
            if not self.dead and len(self.m.stack) > 6 and rng.random() < 0.7:
                self.put(bytes([OP['Pop']]))

    def big_memory_prelude(self):
        """Fill the memory beyond 128 / towards 256 slots so that Load indices use the high bit."""
        rng = self.rng
        n = rng.choice([130, 140, 200, 254])
        for i in range(n - len(self.m.memory)):
            self.put(bytes([OP['CleanMetaVar'], i % 256, OP['Save'], OP['Pop']]))
        # one proved entry high up, and loads of high slots
        self.put(bytes([OP['Prop1'], OP['Save'], OP['Pop']]))
        top = len(self.m.memory) - 1
        for idx in (top, top - 1, 128 if top >= 128 else 0, 127):
            if 0 <= idx <= top and idx < 256:
                self.put(bytes([OP['Load'], idx, OP['Pop']]))
        self.put(bytes([OP['Load'], min(255, top + 1)]) if rng.random() < 0.3 else b'')

    def build(self):
        rng = self.rng
        self.gamma()
        self.m.next_phase()
        self.claim_prelude()
        self.m.next_phase()
        if rng.random() < 0.03:
            self.big_memory_prelude()
        self.proof_ops()
        # claim stream: prelude + the theorems published, in reverse order of publication
        claim = bytearray(self.bufs[1])
        claims = list(reversed(self.to_claim))
        r = rng.random()
        if claims and r < 0.08:
            claims = claims[:-1]                    # one claim missing
        elif claims and r < 0.12:
            rng.shuffle(claims)
        elif r < 0.17:
            claims.append(self.pat())               # an extra, unproved claim
        for t in claims:
            try:
                claim += emit(t, rng) + bytes([OP['Publish']])
            except Exception:
                pass
        return bytes(self.bufs[0]), bytes(claim), bytes(self.bufs[2])


def random_program(rng, n_instr):
    """Unguided short program over the whole opcode alphabet with random operands."""
    out = bytearray()
    ops = list(OP.values())
    for _ in range(n_instr):
        b = rng.choice(ops) if rng.random() < 0.93 else rng.randrange(256)
        out.append(b)
        name = R.NAME.get(b)
        small = lambda: rng.choice([0, 0, 1, 1, 2, 3, 255]) if rng.random() < 0.9 else rng.randrange(256)
        if name in R.ONE_OPERAND:
            out.append(small())
        elif name == 'MetaVar':
            out.append(small())
            for _ in range(5):
                n = rng.choice([0, 0, 0, 1, 2])
                out.append(n)
                out += bytes(small() for _ in range(n))
        elif name == 'Instantiate':
            n = rng.choice([0, 1, 1, 2, 3])
            out.append(n)
            out += bytes(rng.choice([0, 1, 2]) for _ in range(n))
    return bytes(out)
