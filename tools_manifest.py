#!/usr/bin/env python3-vt
"""Regenerates MANIFEST.json from sim/registry.py + the static tables below (keeps it valid)."""
import json, os, sys
sys.path.insert(0, os.path.dirname(os.path.abspath(__file__)))
from sim import registry

NA = {
 'C06': 'pure judgement functions (pattern, variable) -> bool: no history, stream, fault or uncontrolled ordering to simulate; consequences are caught by C01/C05 (checker) and C02/C04/C07 (generator)',
 'C09': 'pure decision procedure over one formula; clause order is fixed by the input and integer hashing is not randomised, so there is no schedule, fault or history in it',
 'C10': 'conclusion-equals-advertised-schema is a pure function of the arguments; the replay half is exercised by the C02 workload',
 'C11': 'algebraic laws of pure substitution/instantiation functions; no schedule, fault or history',
 'C12': 'congruence of pure operations under notation expansion; no schedule, fault or history',
 'C13': 'soundness/completeness of a pure matching function; no schedule, fault or history',
 'C17': 'print/parse/slice are pure functions of a parsed database; the one uncontrolled ordering (emitted $d order) is not constrained by the property',
}
PENDING = 'check not built yet in this session (planned, DESIGN.md section 4); not claimed until its check exists'

def main():
    checks = []
    for pid in sorted(registry.ENGINES):
        meta = registry.META[pid]
        checks.append({
            'property_id': pid,
            'quick_cmd': './check %s quick' % pid,
            'thorough_cmd': './check %s thorough' % pid,
            'evidence_file': '/verif/evidence/%s.json' % pid,
            'replay_cmd_template': './check %s --replay {path}' % pid,
            'engine': meta['engine'],
            'level_claimed': {'category': meta['level'], 'text': meta['text'], 'design_ref': meta['design_ref']},
            'level_note': meta['note'],
            'technique': meta['technique'],
        })
    na = [{'property_id': k, 'reason': v} for k, v in sorted(NA.items())]
    allp = ['C%02d' % i for i in range(1, 21)]
    for p in allp:
        if p not in registry.ENGINES and p not in NA:
            na.append({'property_id': p, 'reason': PENDING})
    na.sort(key=lambda e: e['property_id'])
    m = {
        'version': 1,
        'setup_cmd': 'cd /verif && ./check setup',
        'hooks': {
            'guard': 'PI2_VERIF',
            'enable': 'no hook is needed: every seam the simulator uses already exists (injected IO objects, module-global open, PYTHONHASHSEED, textual inclusion of lib.rs); PI2_VERIF is reserved and unused',
            'baseline_off_cmd': 'cd /repo && /venv/bin/python -m pytest -ra -q -p no:cacheprovider --timeout=900 --continue-on-collection-errors',
            'source_commits': [],
            'add_only': True,
        },
        'engines': registry.ENGINE_TABLE,
        'checks': checks,
        'not_applicable': na,
        'notes': 'Deterministic simulation with fault injection; see DESIGN.md. Exit codes: 0 held (possibly KNOWN-FINDING lines), 1 VIOLATION, 2 harness error. Repairs of genuine defects are the unguarded "fix:" commits listed in known_findings.json.',
    }
    with open(os.path.join(os.path.dirname(os.path.abspath(__file__)), 'MANIFEST.json'), 'w') as f:
        json.dump(m, f, indent=1)
    import jsonschema
    jsonschema.validate(m, json.load(open('/root/.vp/MANIFEST.schema.json')))
    print('MANIFEST.json written and valid: %d checks, %d not applicable/pending' % (len(checks), len(na)))

main()
